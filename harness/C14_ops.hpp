// C14: registry of const / static operations on SHARED GeographicLib objects.
// Used by harness/C14.cpp (in-process concurrent trials) and harness/C14_first.cpp
// (first-touch trials, one process per trial).
//
// An operation draws its inputs from the Rng it is handed (so "inputs" == rng seed) and
// writes every output it obtains from the library into a Res; two Res are compared
// bit-for-bit by the determinism monitor.
#pragma once
#include <atomic>
#include <cstring>
#include <functional>
#include <memory>
#include <string>
#include <thread>
#include <utility>
#include <vector>

#include <GeographicLib/AlbersEqualArea.hpp>
#include <GeographicLib/AuxLatitude.hpp>
#include <GeographicLib/AzimuthalEquidistant.hpp>
#include <GeographicLib/CassiniSoldner.hpp>
#include <GeographicLib/CircularEngine.hpp>
#include <GeographicLib/DAuxLatitude.hpp>
#include <GeographicLib/DMS.hpp>
#include <GeographicLib/Ellipsoid.hpp>
#include <GeographicLib/EllipticFunction.hpp>
#include <GeographicLib/GARS.hpp>
#include <GeographicLib/Geocentric.hpp>
#include <GeographicLib/Geodesic.hpp>
#include <GeographicLib/GeodesicExact.hpp>
#include <GeographicLib/GeodesicLine.hpp>
#include <GeographicLib/GeodesicLineExact.hpp>
#include <GeographicLib/Geohash.hpp>
#include <GeographicLib/Geoid.hpp>
#include <GeographicLib/Georef.hpp>
#include <GeographicLib/Gnomonic.hpp>
#include <GeographicLib/GravityCircle.hpp>
#include <GeographicLib/GravityModel.hpp>
#include <GeographicLib/Intersect.hpp>
#include <GeographicLib/LambertConformalConic.hpp>
#include <GeographicLib/LocalCartesian.hpp>
#include <GeographicLib/MGRS.hpp>
#include <GeographicLib/MagneticCircle.hpp>
#include <GeographicLib/MagneticModel.hpp>
#include <GeographicLib/NormalGravity.hpp>
#include <GeographicLib/OSGB.hpp>
#include <GeographicLib/PolarStereographic.hpp>
#include <GeographicLib/PolygonArea.hpp>
#include <GeographicLib/Rhumb.hpp>
#include <GeographicLib/SphericalHarmonic.hpp>
#include <GeographicLib/SphericalHarmonic1.hpp>
#include <GeographicLib/SphericalHarmonic2.hpp>
#include <GeographicLib/TransverseMercator.hpp>
#include <GeographicLib/TransverseMercatorExact.hpp>
#include <GeographicLib/UTMUPS.hpp>

#include "harness/common.hpp"
#include "harness/C14_files.hpp"

#if __has_include(<valgrind/helgrind.h>)
#include <valgrind/helgrind.h>
#define C14_HG_IGNORE(p, n) VALGRIND_HG_DISABLE_CHECKING(p, n)
#define C14_HG_UNIGNORE(p, n) VALGRIND_HG_ENABLE_CHECKING(p, n)
#else
#define C14_HG_IGNORE(p, n) ((void)0)
#define C14_HG_UNIGNORE(p, n) ((void)0)
#endif

#if defined(__SANITIZE_THREAD__)
extern "C" void AnnotateBenignRaceSized(const char* file, int line, const volatile void* mem, size_t size, const char* desc);
#endif

namespace c14 {
using namespace GeographicLib;
using vh::Rng;
typedef Math::real real;

// Access to the private (documented, mutable) Intersect counters, only to tell ThreadSanitizer their
// addresses: explicit template instantiation may name private members.
template <class Tag, typename Tag::type M> struct Rob { friend typename Tag::type get(Tag) { return M; } };
#define C14_ROB(N) struct IcTag##N { typedef long long Intersect::*type; friend type get(IcTag##N); }; \
  template struct Rob<IcTag##N, &Intersect::_cnt##N>;
C14_ROB(0) C14_ROB(1) C14_ROB(2) C14_ROB(3) C14_ROB(4)
#undef C14_ROB
// set VERIF_C14_NO_ANNOTATION=1 to see the (excluded) counter races: proves TSan sees the Intersect object
inline bool annotate_counters() { static const bool on = !std::getenv("VERIF_C14_NO_ANNOTATION"); return on; }

// ------------------------------------------------------------------ result record
struct Res {
  static const int NV = 32;
  int n = 0, exc = 0; uint64_t fold = 0; double v[NV]; std::string s;
  void d(double x) { if (n < NV) v[n++] = x; else fold = vh::hmix(fold, x); }
  void i(long long x) { d((double)x); }
  void b(bool x) { d(x ? 1.0 : 0.0); }
  void str(const std::string& t) { s += t; s += '\x1f'; }
  bool same(const Res& o) const {
    return n == o.n && exc == o.exc && fold == o.fold && std::memcmp(v, o.v, sizeof(double) * n) == 0 && s == o.s; }
  int firstdiff(const Res& o) const {
    if (exc != o.exc) return -2; if (s != o.s) return -3; if (n != o.n) return -4;
    for (int k = 0; k < n; ++k) if (std::memcmp(&v[k], &o.v[k], 8)) return k;
    return fold != o.fold ? -5 : -1; }
};

// ------------------------------------------------------------------ input generators
inline double pk(Rng& r, std::initializer_list<double> l) { return *(l.begin() + r.below(l.size())); }
inline double glat(Rng& r) {
  double u = r.u();
  if (u < 0.03) return 90; if (u < 0.06) return -90; if (u < 0.11) return 0;
  if (u < 0.15) return r.sign() * (90 - r.logu(1e-12, 1));
  if (u < 0.18) return r.sign() * r.logu(1e-12, 1);
  return r.uniform(-90, 90);
}
inline double glon(Rng& r) {
  double u = r.u();
  if (u < 0.03) return 180; if (u < 0.06) return -180; if (u < 0.10) return 0;
  if (u < 0.13) return r.sign() * (180 - r.logu(1e-12, 1));
  if (u < 0.16) return r.uniform(-540, 540);
  return r.uniform(-180, 180);
}
inline double gazi(Rng& r) {
  double u = r.u();
  if (u < 0.04) return 0; if (u < 0.08) return 90; if (u < 0.12) return 180; if (u < 0.16) return -90;
  if (u < 0.20) return pk(r, {0.0, 90.0, 180.0, -90.0}) + r.sign() * r.logu(1e-12, 1e-2);
  return r.uniform(-180, 180);
}
struct Pair { double lat1, lon1, lat2, lon2; };
inline Pair gpair(Rng& r) {
  Pair p; p.lat1 = glat(r); p.lon1 = glon(r);
  double u = r.u();
  if (u < 0.15) {            // nearly antipodal
    p.lat2 = -p.lat1 + r.sign() * r.logu(1e-10, 2); p.lon2 = p.lon1 + 180 + r.sign() * r.logu(1e-10, 2);
    if (p.lat2 > 90) p.lat2 = 90; if (p.lat2 < -90) p.lat2 = -90;
  } else if (u < 0.25) {     // short
    p.lat2 = p.lat1 + r.sign() * r.logu(1e-12, 1e-2); p.lon2 = p.lon1 + r.sign() * r.logu(1e-12, 1e-2);
    if (p.lat2 > 90) p.lat2 = 90; if (p.lat2 < -90) p.lat2 = -90;
  } else if (u < 0.32) {     // meridional
    p.lat2 = glat(r); p.lon2 = p.lon1 + (r.coin() ? 0 : 180);
  } else if (u < 0.38) {     // equatorial
    p.lat1 = 0; p.lat2 = 0; p.lon2 = glon(r);
  } else if (u < 0.42) {     // coincident
    p.lat2 = p.lat1; p.lon2 = p.lon1;
  } else { p.lat2 = glat(r); p.lon2 = glon(r); }
  return p;
}
inline double gh(Rng& r) { double u = r.u(); return u < 0.1 ? 0.0 : u < 0.7 ? r.uniform(-5e3, 2e4) : r.sign() * r.logu(1, 3e6); }

// ------------------------------------------------------------------ per-trial parameters
struct Params {
  double a = 6378137, f = 1 / 298.257223563, ftm = 1 / 298.257223563, k0 = 0.9996;
  bool tm_extend = false;
  double lat0 = 48, lon0 = 11, h0 = 300;
  double stdlat1 = 40, stdlat2 = 60, stdlat = 33;
  double lx[3] = {10, 20, 30}, ly[3] = {-5, 25, 120};   // two shared geodesic lines (lat, lon, azi)
  double k2 = 0.3, alpha2 = 0.2;
  int shN = 8, shN1 = 4, shN2 = 3, shnorm = 0; uint64_t coeffseed = 1;
  double cp = 5e6, cz = 3e6;            // CircularEngine circle
  double gm_lat = 30, gm_h = 1000, mm_t = 2022.5, mm_lat = -20, mm_h = 500;
  c14f::FileSpec fs; std::string dir, name = "c14";
  std::vector<std::pair<double, double>> poly;
  bool inter_exact = false;
  // second ellipsoid: every "alternative constructor" object lives on (a2, f2) != (a, f), so that each trial mixes
  // at least two ellipsoids (plus WGS84 of the singletons / data files and Airy of OSGB) in one process
  double a2 = 6378137, f2 = 1 / 297.0, ftm2 = 1 / 297.0;
  int freshdeg = 30;              // degree of the harmonic object whose FIRST evaluation happens after the barrier (set by the trial)
  bool prebuilt_circles = true;   // false: no harmonic sum is evaluated before the barrier (no Circle() in the constructor)
};

inline Params make_params(Rng& r, const std::string& dir) {
  static const double fl[] = {1 / 298.257223563, 1 / 298.257223563, 1 / 298.257222101, 1 / 150.0, -1 / 150.0, 0.01, -0.01,
                              0.0, 1e-6, 0.05, -0.05, 0.1, 1 / 297.0};
  Params P; P.dir = dir;
  P.f = r.coin(0.8) ? r.pick(fl) : r.sign() * r.logu(1e-8, 0.1);
  P.a = r.coin(0.6) ? 6378137.0 : r.coin() ? 1.0 : r.logu(1e3, 1e9);
  P.ftm = P.f > 0 ? P.f : (P.f < 0 ? -P.f : 1 / 298.257223563);
  P.k0 = r.coin() ? 0.9996 : r.uniform(0.5, 1.5);
  P.tm_extend = r.coin(0.3);
  P.lat0 = r.uniform(-89, 89); P.lon0 = r.uniform(-180, 180); P.h0 = r.uniform(-1e3, 1e4);
  P.stdlat1 = r.uniform(-80, 80); P.stdlat2 = r.coin(0.1) ? P.stdlat1 + r.sign() * r.logu(1e-10, 1e-3) : r.uniform(-80, 80);
  P.stdlat = r.coin(0.1) ? 0.0 : r.uniform(-85, 85);
  P.lx[0] = r.uniform(-80, 80); P.lx[1] = r.uniform(-180, 180); P.lx[2] = gazi(r);
  P.ly[0] = r.uniform(-80, 80); P.ly[1] = r.uniform(-180, 180); P.ly[2] = gazi(r);
  { double u = r.u(); P.k2 = u < 0.1 ? 0.0 : u < 0.2 ? 1.0 : u < 0.4 ? -r.logu(1e-3, 10) : r.uniform(0, 1);
    u = r.u();        P.alpha2 = u < 0.1 ? 0.0 : u < 0.3 ? -r.logu(1e-3, 10) : r.uniform(0, 1); }
  P.shN = r.range(2, 24); P.shN1 = r.range(1, P.shN); P.shN2 = r.range(1, P.shN); P.shnorm = r.coin() ? 0 : 1;
  P.coeffseed = r.next();
  P.cp = P.a * r.uniform(0.2, 1.5); P.cz = P.a * r.uniform(-1.5, 1.5);
  P.gm_lat = r.uniform(-90, 90); P.gm_h = r.uniform(-1e3, 1e5);
  P.mm_t = r.uniform(2014, 2036); P.mm_lat = r.uniform(-90, 90); P.mm_h = r.uniform(-1e3, 6e5);
  P.fs.seed = r.next(); P.fs.gN = r.range(2, 20); P.fs.gM = r.range(0, P.fs.gN);
  P.fs.cN = r.coin(0.15) ? -1 : r.range(0, 6); P.fs.cM = P.fs.cN < 0 ? -1 : r.range(0, P.fs.cN);
  P.fs.mN = r.range(1, 14); P.fs.mM = r.range(0, P.fs.mN); P.fs.nmodels = r.range(1, 3); P.fs.nconst = r.range(0, 1);
  P.fs.mag_full = r.coin(0.2); P.fs.grav_schmidt = r.coin(0.2);
  P.fs.gw = 2 * r.range(4, 40); P.fs.gh = 2 * r.range(2, 20) + 1;
  int nv = r.range(3, 9);
  for (int k = 0; k < nv; ++k) P.poly.push_back({glat(r), glon(r)});
  P.inter_exact = r.coin(0.3);
  do { P.f2 = r.coin(0.7) ? r.pick(fl) : r.sign() * r.logu(1e-6, 0.1); } while (P.f2 == P.f);
  P.a2 = r.coin(0.5) ? 6378137.0 : r.coin() ? 3396190.0 : r.logu(1e3, 1e9);
  P.ftm2 = P.f2 > 0 ? P.f2 : (P.f2 < 0 ? -P.f2 : 1 / 150.0);
  return P;
}

inline vh::J params_json(const Params& P) {
  return vh::J().f("a", P.a).f("f", P.f).f("a2", P.a2).f("f2", P.f2).i("freshdeg", P.freshdeg).b("prebuilt_circles", P.prebuilt_circles).f("k0", P.k0).f("lat0", P.lat0).f("lon0", P.lon0).f("k2", P.k2).f("alpha2", P.alpha2)
    .i("shN", P.shN).i("gN", P.fs.gN).i("mN", P.fs.mN).i("gw", P.fs.gw).i("gh", P.fs.gh);
}

inline std::vector<double> mkcoef(Rng& r, int n, double scale) {
  std::vector<double> v(n); for (auto& x : v) x = scale * (r.u() - 0.5); return v; }

// ------------------------------------------------------------------ the shared objects of one trial
// Every object sits in a Lazy<T>.  Trial processes build all of them eagerly in the constructor (before any thread
// exists); the fresh-process "alone" helper builds NOTHING up front, so that the single call it executes constructs
// only the object(s) that call needs (single-threaded, on first access).
template <class T> struct Lazy {
  mutable std::unique_ptr<T> p; std::function<T*()> mk;
  const T& operator()() const { if (!p) p.reset(mk()); return *p; }
  bool built() const { return bool(p); }
};

struct Shared {
  Params P; bool lazy;
  std::vector<double> C, S, C1, S1, C2, S2, Cf, Sf;
  // ---- primary constructors, ellipsoid (a, f)
  Lazy<Geodesic> g; Lazy<GeodesicExact> ge; Lazy<GeodesicLine> glX, glY; Lazy<GeodesicLineExact> gleX;
  Lazy<Rhumb> rs; Lazy<RhumbLine> rls;
  Lazy<TransverseMercator> tm; Lazy<TransverseMercatorExact> tme;
  Lazy<PolarStereographic> ps; Lazy<LambertConformalConic> lcc1, lcc2; Lazy<AlbersEqualArea> alb1, alb2;
  Lazy<Geocentric> gc; Lazy<LocalCartesian> lc; Lazy<Ellipsoid> ell; Lazy<AuxLatitude> aux; Lazy<DAuxLatitude> daux; Lazy<EllipticFunction> ef;
  Lazy<NormalGravity> ng;
  Lazy<SphericalHarmonic> sh; Lazy<SphericalHarmonic1> sh1; Lazy<SphericalHarmonic2> sh2; Lazy<CircularEngine> ce, ceg;
  Lazy<GravityModel> gm; Lazy<GravityCircle> gmc; Lazy<MagneticModel> mm; Lazy<MagneticCircle> mmc;
  Lazy<Geoid> geob, geoc;
  Lazy<Gnomonic> gn; Lazy<AzimuthalEquidistant> ae; Lazy<CassiniSoldner> cs;
  Lazy<Intersect> inter;
  Lazy<PolygonArea> poly, pline; Lazy<PolygonAreaExact> polye; Lazy<PolygonAreaRhumb> polyr;
  Lazy<GeodesicLine> glC, glI, glD; Lazy<GeodesicLineExact> gleC, gleI;   // line constructor / InverseLine / DirectLine
  // ---- the same classes through their OTHER public constructors / factories / pre-barrier mutators, ellipsoid (a2, f2)
  Lazy<Geodesic> gx; Lazy<GeodesicLine> glxX, glxI; Lazy<Rhumb> rx; Lazy<RhumbLine> rlx;      // exact = true
  Lazy<TransverseMercator> tmx;                                                                // exact = true
  Lazy<AuxLatitude> auxab;                                                                     // AuxLatitude::axes(a, b)
  Lazy<LambertConformalConic> lcc3, lcc4; Lazy<AlbersEqualArea> alb3, alb4; Lazy<PolarStereographic> ps2;   // sin/cos constructors; SetScale
  Lazy<EllipticFunction> ef4;                                                                  // (k2, alpha2, kp2, alphap2)
  Lazy<NormalGravity> ngJ2;                                                                    // from J2
  Lazy<LocalCartesian> lc2; Lazy<CassiniSoldner> cs2;                                          // default earth (WGS84) + Reset
  Lazy<Gnomonic> gnx; Lazy<AzimuthalEquidistant> aex; Lazy<PolygonArea> polyx; Lazy<PolygonAreaRhumb> polyrx;
  Lazy<SphericalHarmonic> shb; Lazy<SphericalHarmonic1> sh1b; Lazy<SphericalHarmonic2> sh2b;   // (N, nmx, mmx) constructors
  Lazy<GravityModel> gmt; Lazy<GravityCircle> gmct; Lazy<MagneticModel> mmt; Lazy<MagneticCircle> mmct;   // truncated; other earth
  // ---- constructed before the barrier, never evaluated before it, degree larger than anything evaluated earlier in the process
  Lazy<SphericalHarmonic> shfresh;

  // variant selection used by the registry (index = Op::p / 1000)
  const AuxLatitude& auxv(int k) const { return k ? auxab() : aux(); }
  const PolarStereographic& psv(int k) const { return k ? ps2() : ps(); }
  const EllipticFunction& efv(int k) const { return k ? ef4() : ef(); }
  const NormalGravity& ngv(int k) const { return k ? ngJ2() : ng(); }
  const LocalCartesian& lcv(int k) const { return k ? lc2() : lc(); }
  const CassiniSoldner& csv(int k) const { return k ? cs2() : cs(); }
  const Gnomonic& gnv(int k) const { return k ? gnx() : gn(); }
  const AzimuthalEquidistant& aev(int k) const { return k ? aex() : ae(); }
  const SphericalHarmonic& shv(int k) const { return k == 2 ? shfresh() : k ? shb() : sh(); }
  const SphericalHarmonic1& sh1v(int k) const { return k ? sh1b() : sh1(); }
  const SphericalHarmonic2& sh2v(int k) const { return k ? sh2b() : sh2(); }
  const GravityModel& gmv(int k) const { return k ? gmt() : gm(); }
  const GravityCircle& gmcv(int k) const { return k ? gmct() : gmc(); }
  const MagneticModel& mmv(int k) const { return k ? mmt() : mm(); }
  const MagneticCircle& mmcv(int k) const { return k ? mmct() : mmc(); }

  static int csz(int N) { return (N + 1) * (N + 2) / 2; }
  static SphericalHarmonic::normalization nrm(int k) { return k ? SphericalHarmonic::SCHMIDT : SphericalHarmonic::FULL; }
  template <class PA> PA* addpts(PA* q) const { for (auto& v : P.poly) q->AddPoint(v.first, v.second); return q; }

  // lazy = true: nothing of the library is constructed here
  explicit Shared(const Params& p, bool lazy_ = false) : P(p), lazy(lazy_) {
    if (!c14f::write_all(P.dir, P.name, P.fs)) throw std::runtime_error("cannot write synthetic data files in " + P.dir);
    { Rng r(P.coeffseed);
      C = mkcoef(r, csz(P.shN), 1.0); S = mkcoef(r, csz(P.shN) - (P.shN + 1), 1.0);
      C1 = mkcoef(r, csz(P.shN1), 0.1); S1 = mkcoef(r, csz(P.shN1) - (P.shN1 + 1), 0.1);
      C2 = mkcoef(r, csz(P.shN2), 0.1); S2 = mkcoef(r, csz(P.shN2) - (P.shN2 + 1), 0.1);
      Cf = mkcoef(r, 3 * (P.freshdeg + 1), 1.0); Sf = mkcoef(r, 3 * (P.freshdeg + 1), 1.0); }
    const double a = P.a, f = P.f, a2 = P.a2, f2 = P.f2, k0 = P.k0;
    const double s1 = Math::sind(P.stdlat1), c1 = Math::cosd(P.stdlat1), s2 = Math::sind(P.stdlat2), c2 = Math::cosd(P.stdlat2);
#define MK(m, T, expr) m.mk = [=]() -> T* { return expr; }
    MK(g, Geodesic, new Geodesic(a, f)); MK(ge, GeodesicExact, new GeodesicExact(a, f));
    MK(glX, GeodesicLine, new GeodesicLine(g().Line(P.lx[0], P.lx[1], P.lx[2]))); MK(glY, GeodesicLine, new GeodesicLine(g().Line(P.ly[0], P.ly[1], P.ly[2])));
    MK(gleX, GeodesicLineExact, new GeodesicLineExact(ge().Line(P.lx[0], P.lx[1], P.lx[2])));
    MK(rs, Rhumb, new Rhumb(a, f, false)); MK(rls, RhumbLine, new RhumbLine(rs().Line(P.lx[0], P.lx[1], P.lx[2])));
    MK(tm, TransverseMercator, new TransverseMercator(a, f, k0)); MK(tme, TransverseMercatorExact, new TransverseMercatorExact(a, P.ftm, k0, P.tm_extend));
    MK(ps, PolarStereographic, new PolarStereographic(a, f, k0));
    MK(lcc1, LambertConformalConic, new LambertConformalConic(a, f, P.stdlat, k0)); MK(lcc2, LambertConformalConic, new LambertConformalConic(a, f, P.stdlat1, P.stdlat2, k0));
    MK(alb1, AlbersEqualArea, new AlbersEqualArea(a, f, P.stdlat, k0)); MK(alb2, AlbersEqualArea, new AlbersEqualArea(a, f, P.stdlat1, P.stdlat2, k0));
    MK(gc, Geocentric, new Geocentric(a, f)); MK(lc, LocalCartesian, new LocalCartesian(P.lat0, P.lon0, P.h0, gc()));
    MK(ell, Ellipsoid, new Ellipsoid(a, f)); MK(aux, AuxLatitude, new AuxLatitude(a, f)); MK(daux, DAuxLatitude, new DAuxLatitude(a, f));
    MK(ef, EllipticFunction, new EllipticFunction(P.k2, P.alpha2));
    MK(ng, NormalGravity, new NormalGravity(a, 3.986004418e14 * (a / 6378137.0) * (a / 6378137.0) * (a / 6378137.0), 7.292115e-5, f, true));
    MK(sh, SphericalHarmonic, new SphericalHarmonic(C, S, P.shN, a, nrm(P.shnorm)));
    MK(sh1, SphericalHarmonic1, new SphericalHarmonic1(C, S, P.shN, C1, S1, P.shN1, a, nrm(P.shnorm)));
    MK(sh2, SphericalHarmonic2, new SphericalHarmonic2(C, S, P.shN, C1, S1, P.shN1, C2, S2, P.shN2, a, nrm(P.shnorm)));
    MK(ce, CircularEngine, new CircularEngine(sh().Circle(P.cp, P.cz, false))); MK(ceg, CircularEngine, new CircularEngine(sh2().Circle(0.3, -0.7, P.cp, P.cz, true)));
    MK(gm, GravityModel, new GravityModel(P.name, P.dir)); MK(gmc, GravityCircle, new GravityCircle(gm().Circle(P.gm_lat, P.gm_h)));
    MK(mm, MagneticModel, new MagneticModel(P.name, P.dir)); MK(mmc, MagneticCircle, new MagneticCircle(mm().Circle(P.mm_t, P.mm_lat, P.mm_h)));
    MK(geob, Geoid, new Geoid(P.name, P.dir, false, true)); MK(geoc, Geoid, new Geoid(P.name, P.dir, true, true));
    MK(gn, Gnomonic, new Gnomonic(g())); MK(ae, AzimuthalEquidistant, new AzimuthalEquidistant(g())); MK(cs, CassiniSoldner, new CassiniSoldner(P.lat0, P.lon0, g()));
    inter.mk = [=]() -> Intersect* {
      Intersect* q = new Intersect(P.inter_exact ? Geodesic(a, f, true) : g());
      // The five Intersect counters are documented as mutable and not thread safe and are excluded by the
      // property; every other byte of the Intersect object stays monitored.
      if (annotate_counters()) {
        long long* c[5] = {&(q->*get(IcTag0())), &(q->*get(IcTag1())), &(q->*get(IcTag2())), &(q->*get(IcTag3())), &(q->*get(IcTag4()))};
        for (long long* x : c) {
          C14_HG_IGNORE(x, sizeof(long long));
#if defined(__SANITIZE_THREAD__)
          AnnotateBenignRaceSized(__FILE__, __LINE__, x, sizeof(long long), "documented Intersect counter");
#endif
        }
      }
      return q; };
    MK(poly, PolygonArea, addpts(new PolygonArea(g(), false))); MK(pline, PolygonArea, addpts(new PolygonArea(g(), true)));
    MK(polye, PolygonAreaExact, addpts(new PolygonAreaExact(ge(), false))); MK(polyr, PolygonAreaRhumb, addpts(new PolygonAreaRhumb(rs(), false)));
    MK(glC, GeodesicLine, new GeodesicLine(g(), P.ly[0], P.ly[1], P.ly[2], Geodesic::ALL));
    MK(glI, GeodesicLine, new GeodesicLine(g().InverseLine(P.lx[0], P.lx[1], P.ly[0], P.ly[1])));
    MK(glD, GeodesicLine, new GeodesicLine(g().DirectLine(P.lx[0], P.lx[1], P.lx[2], a * 1.3)));
    MK(gleC, GeodesicLineExact, new GeodesicLineExact(ge(), P.ly[0], P.ly[1], P.ly[2], GeodesicExact::ALL));
    MK(gleI, GeodesicLineExact, new GeodesicLineExact(ge().InverseLine(P.lx[0], P.lx[1], P.ly[0], P.ly[1])));
    // ---- second ellipsoid
    MK(gx, Geodesic, new Geodesic(a2, f2, true));
    MK(glxX, GeodesicLine, new GeodesicLine(gx().Line(P.lx[0], P.lx[1], P.lx[2]))); MK(glxI, GeodesicLine, new GeodesicLine(gx().InverseLine(P.lx[0], P.lx[1], P.ly[0], P.ly[1])));
    MK(rx, Rhumb, new Rhumb(a2, f2, true)); MK(rlx, RhumbLine, new RhumbLine(rx().Line(P.ly[0], P.ly[1], P.ly[2])));
    MK(tmx, TransverseMercator, new TransverseMercator(a2, P.ftm2, k0, true, P.tm_extend));
    MK(auxab, AuxLatitude, new AuxLatitude(AuxLatitude::axes(a2, a2 * (1 - f2))));
    MK(lcc3, LambertConformalConic, new LambertConformalConic(a2, f2, s1, c1, s2, c2, k0));
    lcc4.mk = [=]() { auto* q = new LambertConformalConic(a2, f2, P.stdlat1, P.stdlat2, k0); q->SetScale(P.stdlat1 * 0.5, 1.1); return q; };
    MK(alb3, AlbersEqualArea, new AlbersEqualArea(a2, f2, s1, c1, s2, c2, k0));
    alb4.mk = [=]() { auto* q = new AlbersEqualArea(a2, f2, P.stdlat1, P.stdlat2, k0); q->SetScale(P.stdlat1 * 0.5, 1.1); return q; };
    ps2.mk = [=]() { auto* q = new PolarStereographic(a2, f2, k0); q->SetScale(P.stdlat >= 0 ? 71 : -71, 0.98); return q; };
    MK(ef4, EllipticFunction, new EllipticFunction(P.k2, P.alpha2, 1 - P.k2, 1 - P.alpha2));
    ngJ2.mk = [=]() { real GM = 3.986004418e14 * (a2 / 6378137.0) * (a2 / 6378137.0) * (a2 / 6378137.0), om = 7.292115e-5;
                      return new NormalGravity(a2, GM, om, NormalGravity::FlatteningToJ2(a2, GM, om, f2), false); };
    lc2.mk = [=]() { auto* q = new LocalCartesian(P.ly[0], P.ly[1]); q->Reset(P.lat0, P.lon0, P.h0); return q; };
    cs2.mk = [=]() { auto* q = new CassiniSoldner(); q->Reset(P.ly[0], P.ly[1]); return q; };
    MK(gnx, Gnomonic, new Gnomonic(gx())); MK(aex, AzimuthalEquidistant, new AzimuthalEquidistant(gx()));
    MK(polyx, PolygonArea, addpts(new PolygonArea(gx(), false))); MK(polyrx, PolygonAreaRhumb, addpts(new PolygonAreaRhumb(rx(), false)));
    MK(shb, SphericalHarmonic, new SphericalHarmonic(C, S, P.shN, P.shN - 1, (P.shN - 1) / 2, a2, nrm(P.shnorm)));
    MK(sh1b, SphericalHarmonic1, new SphericalHarmonic1(C, S, P.shN, P.shN, P.shN, C1, S1, P.shN1, P.shN1, P.shN1 / 2, a2, nrm(P.shnorm)));
    MK(sh2b, SphericalHarmonic2, new SphericalHarmonic2(C, S, P.shN, P.shN, P.shN / 2, C1, S1, P.shN1, std::min(P.shN1, P.shN), std::min(P.shN1, P.shN / 2),
                                                      C2, S2, P.shN2, std::min(P.shN2, P.shN), std::min(P.shN2, P.shN / 2), a2, nrm(P.shnorm)));
    MK(gmt, GravityModel, new GravityModel(P.name, P.dir, std::max(2, P.fs.gN - 2), std::max(0, std::min(P.fs.gM, P.fs.gN - 2) / 2)));
    MK(gmct, GravityCircle, new GravityCircle(gmt().Circle(-P.gm_lat, P.gm_h * 0.5)));
    MK(mmt, MagneticModel, new MagneticModel(P.name, P.dir, gc(), std::max(1, P.fs.mN - 1), std::max(0, std::min(P.fs.mM, P.fs.mN - 1) / 2)));
    MK(mmct, MagneticCircle, new MagneticCircle(mmt().Circle(2015 + (P.mm_t - 2014) / 3, P.mm_lat, P.mm_h)));
    MK(shfresh, SphericalHarmonic, new SphericalHarmonic(Cf, Sf, P.freshdeg, P.freshdeg, std::min(1, P.freshdeg), a, nrm(P.shnorm)));
#undef MK
    if (!lazy) {
      // eager: everything exists before the barrier.  With prebuilt_circles == false nothing here EVALUATES a harmonic
      // sum (Circle() is an evaluation), so the first evaluation of every harmonic object happens on the worker threads.
      g(); ge(); glX(); glY(); gleX(); rs(); rls(); tm(); tme(); ps(); lcc1(); lcc2(); alb1(); alb2(); gc(); lc(); ell(); aux(); daux(); ef(); ng();
      sh(); sh1(); sh2(); gm(); mm(); geob(); geoc(); gn(); ae(); cs(); gx(); inter(); poly(); pline(); polye(); polyr(); glC(); glI(); glD(); gleC(); gleI();
      glxX(); glxI(); rx(); rlx(); tmx(); auxab(); lcc3(); lcc4(); alb3(); alb4(); ps2(); ef4(); ngJ2(); lc2(); cs2(); gnx(); aex(); polyx(); polyrx();
      shb(); sh1b(); sh2b(); gmt(); mmt(); shfresh();
      if (P.prebuilt_circles) { ce(); ceg(); gmc(); mmc(); gmct(); mmct(); }
    }
  }
  ~Shared() {
    if (inter.built()) {
      Intersect* q = inter.p.get();
      long long* c[5] = {&(q->*get(IcTag0())), &(q->*get(IcTag1())), &(q->*get(IcTag2())), &(q->*get(IcTag3())), &(q->*get(IcTag4()))};
      for (long long* x : c) { C14_HG_UNIGNORE(x, sizeof(long long)); (void)x; }
    }
  }
  Shared(const Shared&) = delete;
};

// ------------------------------------------------------------------ registry
typedef void (*OpFn)(const Shared*, Rng&, Res&, int);
struct Op { std::string name, cls; double w; bool needs_shared; OpFn fn; int p; bool needs_circle = false; };
inline std::vector<Op>& registry() { static std::vector<Op> R; return R; }
inline void add(const std::string& name, const std::string& cls, double w, bool ns, OpFn fn, int p = 0) {
  registry().push_back(Op{name, cls, w, ns, fn, p}); }

// object variant selected by Op::p / 1000 (0 = primary constructor, 1 = alternative constructor / factory)
#define VAR(arr) (S->arr(pv / 1000))
// re-register every operation whose name starts with oldpre for variant v under newpre / newcls
inline void add_variant(const std::string& oldpre, const std::string& newpre, const std::string& newcls, int v) {
  size_t n = registry().size();
  for (size_t k = 0; k < n; ++k) {
    Op o = registry()[k];
    if (o.p >= 1000 || !o.needs_shared || o.name.compare(0, oldpre.size(), oldpre) != 0) continue;
    o.name = newpre + o.name.substr(oldpre.size()); o.cls = newcls; o.p += 1000 * v; registry().push_back(o);
  }
}

// executes one registered operation; library exceptions are part of the result
inline void exec(const Op& op, const Shared* S, uint64_t seed, Res& out) {
  Rng r(seed);
  try { op.fn(S, r, out, op.p); }
  catch (const GeographicErr& e) { out.exc = 1; out.str(e.what()); }
  catch (const std::exception& e) { out.exc = 2; out.str(e.what()); }
  catch (...) { out.exc = 3; }
}

// serialisation of a result for the cross-process comparison (bit-exact)
inline std::string reshex(const Res& r) {
  char b[64]; std::string o;
  std::snprintf(b, sizeof b, "%d:%d:%016llx:", r.n, r.exc, (unsigned long long)r.fold); o += b;
  for (int k = 0; k < r.n; ++k) { uint64_t u; std::memcpy(&u, &r.v[k], 8); std::snprintf(b, sizeof b, "%016llx,", (unsigned long long)u); o += b; }
  o += ":";
  for (unsigned char c : r.s) { std::snprintf(b, sizeof b, "%02x", c); o += b; }
  return o;
}

void register_all();   // defined in C14_ops2.hpp

}  // namespace c14
