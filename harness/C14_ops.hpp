// C14: registry of const / static operations on SHARED GeographicLib objects.
// Used by harness/C14.cpp (in-process concurrent trials) and harness/C14_first.cpp
// (first-touch trials, one process per trial).
//
// An operation draws its inputs from the Rng it is handed (so "inputs" == rng seed) and
// writes every output it obtains from the library into a Res; two Res are compared
// bit-for-bit by the determinism monitor.
#pragma once
#include <atomic>
#include <cstring>
#include <memory>
#include <string>
#include <thread>
#include <utility>
#include <vector>

#include <GeographicLib/AlbersEqualArea.hpp>
#include <GeographicLib/AuxLatitude.hpp>
#include <GeographicLib/AzimuthalEquidistant.hpp>
#include <GeographicLib/CassiniSoldner.hpp>
#include <GeographicLib/CircularEngine.hpp>
#include <GeographicLib/DAuxLatitude.hpp>
#include <GeographicLib/DMS.hpp>
#include <GeographicLib/Ellipsoid.hpp>
#include <GeographicLib/EllipticFunction.hpp>
#include <GeographicLib/GARS.hpp>
#include <GeographicLib/Geocentric.hpp>
#include <GeographicLib/Geodesic.hpp>
#include <GeographicLib/GeodesicExact.hpp>
#include <GeographicLib/GeodesicLine.hpp>
#include <GeographicLib/GeodesicLineExact.hpp>
#include <GeographicLib/Geohash.hpp>
#include <GeographicLib/Geoid.hpp>
#include <GeographicLib/Georef.hpp>
#include <GeographicLib/Gnomonic.hpp>
#include <GeographicLib/GravityCircle.hpp>
#include <GeographicLib/GravityModel.hpp>
#include <GeographicLib/Intersect.hpp>
#include <GeographicLib/LambertConformalConic.hpp>
#include <GeographicLib/LocalCartesian.hpp>
#include <GeographicLib/MGRS.hpp>
#include <GeographicLib/MagneticCircle.hpp>
#include <GeographicLib/MagneticModel.hpp>
#include <GeographicLib/NormalGravity.hpp>
#include <GeographicLib/OSGB.hpp>
#include <GeographicLib/PolarStereographic.hpp>
#include <GeographicLib/PolygonArea.hpp>
#include <GeographicLib/Rhumb.hpp>
#include <GeographicLib/SphericalHarmonic.hpp>
#include <GeographicLib/SphericalHarmonic1.hpp>
#include <GeographicLib/SphericalHarmonic2.hpp>
#include <GeographicLib/TransverseMercator.hpp>
#include <GeographicLib/TransverseMercatorExact.hpp>
#include <GeographicLib/UTMUPS.hpp>

#include "harness/common.hpp"
#include "harness/C14_files.hpp"

#if __has_include(<valgrind/helgrind.h>)
#include <valgrind/helgrind.h>
#define C14_HG_IGNORE(p, n) VALGRIND_HG_DISABLE_CHECKING(p, n)
#define C14_HG_UNIGNORE(p, n) VALGRIND_HG_ENABLE_CHECKING(p, n)
#else
#define C14_HG_IGNORE(p, n) ((void)0)
#define C14_HG_UNIGNORE(p, n) ((void)0)
#endif

#if defined(__SANITIZE_THREAD__)
extern "C" void AnnotateBenignRaceSized(const char* file, int line, const volatile void* mem, size_t size, const char* desc);
#endif

namespace c14 {
using namespace GeographicLib;
using vh::Rng;
typedef Math::real real;

// Access to the private (documented, mutable) Intersect counters, only to tell ThreadSanitizer their
// addresses: explicit template instantiation may name private members.
template <class Tag, typename Tag::type M> struct Rob { friend typename Tag::type get(Tag) { return M; } };
#define C14_ROB(N) struct IcTag##N { typedef long long Intersect::*type; friend type get(IcTag##N); }; \
  template struct Rob<IcTag##N, &Intersect::_cnt##N>;
C14_ROB(0) C14_ROB(1) C14_ROB(2) C14_ROB(3) C14_ROB(4)
#undef C14_ROB
// set VERIF_C14_NO_ANNOTATION=1 to see the (excluded) counter races: proves TSan sees the Intersect object
inline bool annotate_counters() { static const bool on = !std::getenv("VERIF_C14_NO_ANNOTATION"); return on; }

// ------------------------------------------------------------------ result record
struct Res {
  static const int NV = 32;
  int n = 0, exc = 0; uint64_t fold = 0; double v[NV]; std::string s;
  void d(double x) { if (n < NV) v[n++] = x; else fold = vh::hmix(fold, x); }
  void i(long long x) { d((double)x); }
  void b(bool x) { d(x ? 1.0 : 0.0); }
  void str(const std::string& t) { s += t; s += '\x1f'; }
  bool same(const Res& o) const {
    return n == o.n && exc == o.exc && fold == o.fold && std::memcmp(v, o.v, sizeof(double) * n) == 0 && s == o.s; }
  int firstdiff(const Res& o) const {
    if (exc != o.exc) return -2; if (s != o.s) return -3; if (n != o.n) return -4;
    for (int k = 0; k < n; ++k) if (std::memcmp(&v[k], &o.v[k], 8)) return k;
    return fold != o.fold ? -5 : -1; }
};

// ------------------------------------------------------------------ input generators
inline double pk(Rng& r, std::initializer_list<double> l) { return *(l.begin() + r.below(l.size())); }
inline double glat(Rng& r) {
  double u = r.u();
  if (u < 0.03) return 90; if (u < 0.06) return -90; if (u < 0.11) return 0;
  if (u < 0.15) return r.sign() * (90 - r.logu(1e-12, 1));
  if (u < 0.18) return r.sign() * r.logu(1e-12, 1);
  return r.uniform(-90, 90);
}
inline double glon(Rng& r) {
  double u = r.u();
  if (u < 0.03) return 180; if (u < 0.06) return -180; if (u < 0.10) return 0;
  if (u < 0.13) return r.sign() * (180 - r.logu(1e-12, 1));
  if (u < 0.16) return r.uniform(-540, 540);
  return r.uniform(-180, 180);
}
inline double gazi(Rng& r) {
  double u = r.u();
  if (u < 0.04) return 0; if (u < 0.08) return 90; if (u < 0.12) return 180; if (u < 0.16) return -90;
  if (u < 0.20) return pk(r, {0.0, 90.0, 180.0, -90.0}) + r.sign() * r.logu(1e-12, 1e-2);
  return r.uniform(-180, 180);
}
struct Pair { double lat1, lon1, lat2, lon2; };
inline Pair gpair(Rng& r) {
  Pair p; p.lat1 = glat(r); p.lon1 = glon(r);
  double u = r.u();
  if (u < 0.15) {            // nearly antipodal
    p.lat2 = -p.lat1 + r.sign() * r.logu(1e-10, 2); p.lon2 = p.lon1 + 180 + r.sign() * r.logu(1e-10, 2);
    if (p.lat2 > 90) p.lat2 = 90; if (p.lat2 < -90) p.lat2 = -90;
  } else if (u < 0.25) {     // short
    p.lat2 = p.lat1 + r.sign() * r.logu(1e-12, 1e-2); p.lon2 = p.lon1 + r.sign() * r.logu(1e-12, 1e-2);
    if (p.lat2 > 90) p.lat2 = 90; if (p.lat2 < -90) p.lat2 = -90;
  } else if (u < 0.32) {     // meridional
    p.lat2 = glat(r); p.lon2 = p.lon1 + (r.coin() ? 0 : 180);
  } else if (u < 0.38) {     // equatorial
    p.lat1 = 0; p.lat2 = 0; p.lon2 = glon(r);
  } else if (u < 0.42) {     // coincident
    p.lat2 = p.lat1; p.lon2 = p.lon1;
  } else { p.lat2 = glat(r); p.lon2 = glon(r); }
  return p;
}
inline double gh(Rng& r) { double u = r.u(); return u < 0.1 ? 0.0 : u < 0.7 ? r.uniform(-5e3, 2e4) : r.sign() * r.logu(1, 3e6); }

// ------------------------------------------------------------------ per-trial parameters
struct Params {
  double a = 6378137, f = 1 / 298.257223563, ftm = 1 / 298.257223563, k0 = 0.9996;
  bool tm_extend = false;
  double lat0 = 48, lon0 = 11, h0 = 300;
  double stdlat1 = 40, stdlat2 = 60, stdlat = 33;
  double lx[3] = {10, 20, 30}, ly[3] = {-5, 25, 120};   // two shared geodesic lines (lat, lon, azi)
  double k2 = 0.3, alpha2 = 0.2;
  int shN = 8, shN1 = 4, shN2 = 3, shnorm = 0; uint64_t coeffseed = 1;
  double cp = 5e6, cz = 3e6;            // CircularEngine circle
  double gm_lat = 30, gm_h = 1000, mm_t = 2022.5, mm_lat = -20, mm_h = 500;
  c14f::FileSpec fs; std::string dir, name = "c14";
  std::vector<std::pair<double, double>> poly;
  bool inter_exact = false;
};

inline Params make_params(Rng& r, const std::string& dir) {
  static const double fl[] = {1 / 298.257223563, 1 / 298.257223563, 1 / 298.257222101, 1 / 150.0, -1 / 150.0, 0.01, -0.01,
                              0.0, 1e-6, 0.05, -0.05, 0.1, 1 / 297.0};
  Params P; P.dir = dir;
  P.f = r.coin(0.8) ? r.pick(fl) : r.sign() * r.logu(1e-8, 0.1);
  P.a = r.coin(0.6) ? 6378137.0 : r.coin() ? 1.0 : r.logu(1e3, 1e9);
  P.ftm = P.f > 0 ? P.f : (P.f < 0 ? -P.f : 1 / 298.257223563);
  P.k0 = r.coin() ? 0.9996 : r.uniform(0.5, 1.5);
  P.tm_extend = r.coin(0.3);
  P.lat0 = r.uniform(-89, 89); P.lon0 = r.uniform(-180, 180); P.h0 = r.uniform(-1e3, 1e4);
  P.stdlat1 = r.uniform(-80, 80); P.stdlat2 = r.coin(0.1) ? P.stdlat1 + r.sign() * r.logu(1e-10, 1e-3) : r.uniform(-80, 80);
  P.stdlat = r.coin(0.1) ? 0.0 : r.uniform(-85, 85);
  P.lx[0] = r.uniform(-80, 80); P.lx[1] = r.uniform(-180, 180); P.lx[2] = gazi(r);
  P.ly[0] = r.uniform(-80, 80); P.ly[1] = r.uniform(-180, 180); P.ly[2] = gazi(r);
  { double u = r.u(); P.k2 = u < 0.1 ? 0.0 : u < 0.2 ? 1.0 : u < 0.4 ? -r.logu(1e-3, 10) : r.uniform(0, 1);
    u = r.u();        P.alpha2 = u < 0.1 ? 0.0 : u < 0.3 ? -r.logu(1e-3, 10) : r.uniform(0, 1); }
  P.shN = r.range(2, 24); P.shN1 = r.range(1, P.shN); P.shN2 = r.range(1, P.shN); P.shnorm = r.coin() ? 0 : 1;
  P.coeffseed = r.next();
  P.cp = P.a * r.uniform(0.2, 1.5); P.cz = P.a * r.uniform(-1.5, 1.5);
  P.gm_lat = r.uniform(-90, 90); P.gm_h = r.uniform(-1e3, 1e5);
  P.mm_t = r.uniform(2014, 2036); P.mm_lat = r.uniform(-90, 90); P.mm_h = r.uniform(-1e3, 6e5);
  P.fs.seed = r.next(); P.fs.gN = r.range(2, 20); P.fs.gM = r.range(0, P.fs.gN);
  P.fs.cN = r.coin(0.15) ? -1 : r.range(0, 6); P.fs.cM = P.fs.cN < 0 ? -1 : r.range(0, P.fs.cN);
  P.fs.mN = r.range(1, 14); P.fs.mM = r.range(0, P.fs.mN); P.fs.nmodels = r.range(1, 3); P.fs.nconst = r.range(0, 1);
  P.fs.mag_full = r.coin(0.2); P.fs.grav_schmidt = r.coin(0.2);
  P.fs.gw = 2 * r.range(4, 40); P.fs.gh = 2 * r.range(2, 20) + 1;
  int nv = r.range(3, 9);
  for (int k = 0; k < nv; ++k) P.poly.push_back({glat(r), glon(r)});
  P.inter_exact = r.coin(0.3);
  return P;
}

inline vh::J params_json(const Params& P) {
  return vh::J().f("a", P.a).f("f", P.f).f("k0", P.k0).f("lat0", P.lat0).f("lon0", P.lon0).f("k2", P.k2).f("alpha2", P.alpha2)
    .i("shN", P.shN).i("gN", P.fs.gN).i("mN", P.fs.mN).i("gw", P.fs.gw).i("gh", P.fs.gh);
}

inline std::vector<double> mkcoef(Rng& r, int n, double scale) {
  std::vector<double> v(n); for (auto& x : v) x = scale * (r.u() - 0.5); return v; }

// ------------------------------------------------------------------ the shared objects of one trial
struct Shared {
  Params P;
  Geodesic g, gx; GeodesicExact ge;
  GeodesicLine glX, glY, glxX; GeodesicLineExact gleX;
  Rhumb rs, rx; RhumbLine rls, rlx;
  TransverseMercator tm, tmx; TransverseMercatorExact tme;
  PolarStereographic ps; LambertConformalConic lcc1, lcc2; AlbersEqualArea alb1, alb2;
  Geocentric gc; LocalCartesian lc; Ellipsoid ell; AuxLatitude aux; DAuxLatitude daux; EllipticFunction ef;
  NormalGravity ng;
  std::vector<double> C, S, C1, S1, C2, S2;
  SphericalHarmonic sh; SphericalHarmonic1 sh1; SphericalHarmonic2 sh2; CircularEngine ce, ceg;
  GravityModel gm; GravityCircle gmc; MagneticModel mm; MagneticCircle mmc;
  Geoid geob, geoc;
  Gnomonic gn; AzimuthalEquidistant ae; CassiniSoldner cs;
  Intersect inter;
  PolygonArea poly, pline; PolygonAreaExact polye; PolygonAreaRhumb polyr;
  // ---- the same classes built through their OTHER public constructors / factories / pre-barrier mutators
  AuxLatitude auxab;                                   // AuxLatitude::axes(a, b)  (private pair constructor)
  LambertConformalConic lcc3, lcc4; AlbersEqualArea alb3, alb4; PolarStereographic ps2;   // sin/cos constructors; SetScale
  EllipticFunction ef4;                                // (k2, alpha2, kp2, alphap2)
  NormalGravity ngJ2;                                  // from J2 (geometricp = false)
  LocalCartesian lc2; CassiniSoldner cs2;              // default-earth constructors + Reset
  Gnomonic gnx; AzimuthalEquidistant aex;              // on Geodesic(exact=true)
  GeodesicLine glC, glI, glD, glxI; GeodesicLineExact gleC, gleI;   // line constructors; InverseLine / DirectLine (distance set)
  SphericalHarmonic shb; SphericalHarmonic1 sh1b; SphericalHarmonic2 sh2b;   // (N, nmx, mmx) constructors
  GravityModel gmt; GravityCircle gmct; MagneticModel mmt; MagneticCircle mmct;   // truncated (Nmax, Mmax); other earth; restricted caps
  PolygonArea polyx; PolygonAreaRhumb polyrx;          // on Geodesic(exact=true) / Rhumb(exact)
  // variant tables used by the registry (index = Op::p / 1000)
  const AuxLatitude* auxv[2]; const PolarStereographic* psv[2]; const EllipticFunction* efv[2]; const NormalGravity* ngv[2];
  const LocalCartesian* lcv[2]; const CassiniSoldner* csv[2]; const Gnomonic* gnv[2]; const AzimuthalEquidistant* aev[2];
  const SphericalHarmonic* shv[2]; const SphericalHarmonic1* sh1v[2]; const SphericalHarmonic2* sh2v[2];
  const GravityModel* gmv[2]; const GravityCircle* gmcv[2]; const MagneticModel* mmv[2]; const MagneticCircle* mmcv[2];

  static int csz(int N) { return (N + 1) * (N + 2) / 2; }
  static SphericalHarmonic::normalization nrm(int k) { return k ? SphericalHarmonic::SCHMIDT : SphericalHarmonic::FULL; }
  struct CoefInit { CoefInit(Shared& s) {
    Rng r(s.P.coeffseed);
    s.C = mkcoef(r, csz(s.P.shN), 1.0); s.S = mkcoef(r, csz(s.P.shN) - (s.P.shN + 1), 1.0);
    s.C1 = mkcoef(r, csz(s.P.shN1), 0.1); s.S1 = mkcoef(r, csz(s.P.shN1) - (s.P.shN1 + 1), 0.1);
    s.C2 = mkcoef(r, csz(s.P.shN2), 0.1); s.S2 = mkcoef(r, csz(s.P.shN2) - (s.P.shN2 + 1), 0.1); } };
  static const Params& prep(const Params& p) {   // (re)write the data files before the readers are constructed
    if (!c14f::write_all(p.dir, p.name, p.fs)) throw std::runtime_error("cannot write synthetic data files in " + p.dir);
    return p; }

  explicit Shared(const Params& p)
    : P(prep(p)),
      g(P.a, P.f), gx(P.a, P.f, true), ge(P.a, P.f),
      glX(g.Line(P.lx[0], P.lx[1], P.lx[2])), glY(g.Line(P.ly[0], P.ly[1], P.ly[2])),
      glxX(gx.Line(P.lx[0], P.lx[1], P.lx[2])), gleX(ge.Line(P.lx[0], P.lx[1], P.lx[2])),
      rs(P.a, P.f, false), rx(P.a, P.f, true), rls(rs.Line(P.lx[0], P.lx[1], P.lx[2])), rlx(rx.Line(P.ly[0], P.ly[1], P.ly[2])),
      tm(P.a, P.f, P.k0), tmx(P.a, P.ftm, P.k0, true, P.tm_extend), tme(P.a, P.ftm, P.k0, P.tm_extend),
      ps(P.a, P.f, P.k0), lcc1(P.a, P.f, P.stdlat, P.k0), lcc2(P.a, P.f, P.stdlat1, P.stdlat2, P.k0),
      alb1(P.a, P.f, P.stdlat, P.k0), alb2(P.a, P.f, P.stdlat1, P.stdlat2, P.k0),
      gc(P.a, P.f), lc(P.lat0, P.lon0, P.h0, gc), ell(P.a, P.f), aux(P.a, P.f), daux(P.a, P.f), ef(P.k2, P.alpha2),
      ng(P.a, 3.986004418e14 * (P.a / 6378137.0) * (P.a / 6378137.0) * (P.a / 6378137.0), 7.292115e-5, P.f, true),
      sh((CoefInit(*this), C), S, P.shN, P.a, nrm(P.shnorm)),
      sh1(C, S, P.shN, C1, S1, P.shN1, P.a, nrm(P.shnorm)),
      sh2(C, S, P.shN, C1, S1, P.shN1, C2, S2, P.shN2, P.a, nrm(P.shnorm)),
      ce(sh.Circle(P.cp, P.cz, false)), ceg(sh2.Circle(0.3, -0.7, P.cp, P.cz, true)),
      gm(P.name, P.dir), gmc(gm.Circle(P.gm_lat, P.gm_h)), mm(P.name, P.dir), mmc(mm.Circle(P.mm_t, P.mm_lat, P.mm_h)),
      geob(P.name, P.dir, false, true), geoc(P.name, P.dir, true, true),
      gn(g), ae(g), cs(P.lat0, P.lon0, g),
      inter(P.inter_exact ? gx : g),
      poly(g, false), pline(g, true), polye(ge, false), polyr(rs, false),
      auxab(AuxLatitude::axes(P.a, P.a * (1 - P.f))),
      lcc3(P.a, P.f, Math::sind(P.stdlat1), Math::cosd(P.stdlat1), Math::sind(P.stdlat2), Math::cosd(P.stdlat2), P.k0), lcc4(lcc2),
      alb3(P.a, P.f, Math::sind(P.stdlat1), Math::cosd(P.stdlat1), Math::sind(P.stdlat2), Math::cosd(P.stdlat2), P.k0), alb4(alb2),
      ps2(P.a, P.f, P.k0),
      ef4(P.k2, P.alpha2, 1 - P.k2, 1 - P.alpha2),
      ngJ2(P.a, ng.MassConstant(), 7.292115e-5, ng.DynamicalFormFactor(), false),
      lc2(P.ly[0], P.ly[1]), cs2(),
      gnx(gx), aex(gx),
      glC(g, P.ly[0], P.ly[1], P.ly[2], Geodesic::ALL), glI(g.InverseLine(P.lx[0], P.lx[1], P.ly[0], P.ly[1])),
      glD(g.DirectLine(P.lx[0], P.lx[1], P.lx[2], P.a * 1.3)), glxI(gx.InverseLine(P.lx[0], P.lx[1], P.ly[0], P.ly[1])),
      gleC(ge, P.ly[0], P.ly[1], P.ly[2], GeodesicExact::ALL), gleI(ge.InverseLine(P.lx[0], P.lx[1], P.ly[0], P.ly[1])),
      shb(C, S, P.shN, P.shN - 1, (P.shN - 1) / 2, P.a, nrm(P.shnorm)),
      sh1b(C, S, P.shN, P.shN, P.shN, C1, S1, P.shN1, P.shN1, P.shN1 / 2, P.a, nrm(P.shnorm)),
      sh2b(C, S, P.shN, P.shN, P.shN / 2, C1, S1, P.shN1, std::min(P.shN1, P.shN), std::min(P.shN1, P.shN / 2),
           C2, S2, P.shN2, std::min(P.shN2, P.shN), std::min(P.shN2, P.shN / 2), P.a, nrm(P.shnorm)),
      gmt(P.name, P.dir, std::max(2, P.fs.gN - 2), std::max(0, std::min(P.fs.gM, P.fs.gN - 2) / 2)),
      gmct(gmt.Circle(-P.gm_lat, P.gm_h * 0.5)),
      mmt(P.name, P.dir, gc, std::max(1, P.fs.mN - 1), std::max(0, std::min(P.fs.mM, P.fs.mN - 1) / 2)),
      mmct(mmt.Circle(2015 + (P.mm_t - 2014) / 3, P.mm_lat, P.mm_h)),
      polyx(gx, false), polyrx(rx, false),
      auxv{&aux, &auxab}, psv{&ps, &ps2}, efv{&ef, &ef4}, ngv{&ng, &ngJ2}, lcv{&lc, &lc2}, csv{&cs, &cs2}, gnv{&gn, &gnx}, aev{&ae, &aex},
      shv{&sh, &shb}, sh1v{&sh1, &sh1b}, sh2v{&sh2, &sh2b}, gmv{&gm, &gmt}, gmcv{&gmc, &gmct}, mmv{&mm, &mmt}, mmcv{&mmc, &mmct}
  {
    // mutators that belong to construction (all before any thread exists)
    lcc4.SetScale(P.stdlat1 * 0.5, 1.1); alb4.SetScale(P.stdlat1 * 0.5, 1.1); ps2.SetScale(P.stdlat >= 0 ? 71 : -71, 0.98);
    lc2.Reset(P.lat0, P.lon0, P.h0); cs2.Reset(P.ly[0], P.ly[1]);
    for (auto& q : P.poly) { polyx.AddPoint(q.first, q.second); polyrx.AddPoint(q.first, q.second); }
    for (auto& q : P.poly) { poly.AddPoint(q.first, q.second); pline.AddPoint(q.first, q.second);
                             polye.AddPoint(q.first, q.second); polyr.AddPoint(q.first, q.second); }
    // same exclusion for the helgrind pass (client requests; no-ops outside valgrind)
    if (annotate_counters()) {
      C14_HG_IGNORE(&(inter.*get(IcTag0())), sizeof(long long)); C14_HG_IGNORE(&(inter.*get(IcTag1())), sizeof(long long));
      C14_HG_IGNORE(&(inter.*get(IcTag2())), sizeof(long long)); C14_HG_IGNORE(&(inter.*get(IcTag3())), sizeof(long long));
      C14_HG_IGNORE(&(inter.*get(IcTag4())), sizeof(long long));
    }
#if defined(__SANITIZE_THREAD__)
    // The five Intersect counters are documented as mutable and not thread safe and are excluded by
    // the property; every other byte of the Intersect object stays monitored.
    if (annotate_counters()) {
    AnnotateBenignRaceSized(__FILE__, __LINE__, &(inter.*get(IcTag0())), sizeof(long long), "documented Intersect counter _cnt0");
    AnnotateBenignRaceSized(__FILE__, __LINE__, &(inter.*get(IcTag1())), sizeof(long long), "documented Intersect counter _cnt1");
    AnnotateBenignRaceSized(__FILE__, __LINE__, &(inter.*get(IcTag2())), sizeof(long long), "documented Intersect counter _cnt2");
    AnnotateBenignRaceSized(__FILE__, __LINE__, &(inter.*get(IcTag3())), sizeof(long long), "documented Intersect counter _cnt3");
    AnnotateBenignRaceSized(__FILE__, __LINE__, &(inter.*get(IcTag4())), sizeof(long long), "documented Intersect counter _cnt4");
    }
#endif
  }
  ~Shared() {
    C14_HG_UNIGNORE(&(inter.*get(IcTag0())), sizeof(long long)); C14_HG_UNIGNORE(&(inter.*get(IcTag1())), sizeof(long long));
    C14_HG_UNIGNORE(&(inter.*get(IcTag2())), sizeof(long long)); C14_HG_UNIGNORE(&(inter.*get(IcTag3())), sizeof(long long));
    C14_HG_UNIGNORE(&(inter.*get(IcTag4())), sizeof(long long));
  }
  Shared(const Shared&) = delete;
};

// ------------------------------------------------------------------ registry
typedef void (*OpFn)(const Shared*, Rng&, Res&, int);
struct Op { std::string name, cls; double w; bool needs_shared; OpFn fn; int p; };
inline std::vector<Op>& registry() { static std::vector<Op> R; return R; }
inline void add(const std::string& name, const std::string& cls, double w, bool ns, OpFn fn, int p = 0) {
  registry().push_back(Op{name, cls, w, ns, fn, p}); }

// object variant selected by Op::p / 1000 (0 = primary constructor, 1 = alternative constructor / factory)
#define VAR(arr) (*S->arr[pv / 1000])
// re-register every operation whose name starts with oldpre for variant v under newpre / newcls
inline void add_variant(const std::string& oldpre, const std::string& newpre, const std::string& newcls, int v) {
  size_t n = registry().size();
  for (size_t k = 0; k < n; ++k) {
    Op o = registry()[k];
    if (o.p >= 1000 || !o.needs_shared || o.name.compare(0, oldpre.size(), oldpre) != 0) continue;
    o.name = newpre + o.name.substr(oldpre.size()); o.cls = newcls; o.p += 1000 * v; registry().push_back(o);
  }
}

// executes one registered operation; library exceptions are part of the result
inline void exec(const Op& op, const Shared* S, uint64_t seed, Res& out) {
  Rng r(seed);
  try { op.fn(S, r, out, op.p); }
  catch (const GeographicErr& e) { out.exc = 1; out.str(e.what()); }
  catch (const std::exception& e) { out.exc = 2; out.str(e.what()); }
  catch (...) { out.exc = 3; }
}

void register_all();   // defined in C14_ops2.hpp

}  // namespace c14
