// C14 first-touch trials: ONE trial per process, because the library's function-local static
// singletons (Geodesic::WGS84(), TransverseMercator::UTM(), PolarStereographic::UPS(), OSGB's
// OSGBTM()/computenorthoffset(), ...) and the static tables of the static-function classes can be
// touched for the first time only once per process.
//
//   C14_first --tier quick|thorough --seed S --count          number of planned trials
//   C14_first --tier quick|thorough --seed S --only first-touch:I   run planned trial I (what checks/C14.py and --replay use)
//   C14_first --ops name,name,... --threads T --seed S --order same|shuffled [--rounds R]   (manual)
//   C14_first --list                (operations that need no constructed object)
// Plan: every singleton / static-function operation alone (all threads first-touch the same thing at
// once), then mixed sets in the same or in per-thread shuffled order (different first-touch orders).
//
// All T threads are released from a barrier and immediately execute the given operations (same
// order: maximal contention on every first touch; shuffled: different first-touch orders), R rounds.
// Nothing of the library is touched before the barrier.  Afterwards every (operation, inputs) is
// re-executed single-threaded and must be bit-identical.  One JSON line on stdout; ThreadSanitizer
// reports (tsan flavour) go to stderr and are parsed by checks/C14.py.  Exit status 0 unless the
// harness itself failed (3).
#include <chrono>
#include "harness/C14_ops.hpp"
#include "harness/C14_ops_a.hpp"
#include "harness/C14_ops_b.hpp"
#include "harness/C14_ops_c.hpp"

namespace c14 { void register_all() { register_a(); register_b(); register_c(); } }
using namespace c14;

struct Rec { uint32_t op; uint64_t seed, b, e; Res r; };
static std::atomic<uint64_t> g_seq{0};
static std::atomic<int> g_arrived{0};
static std::atomic<bool> g_go{false};

static void worker(const std::vector<Op>* ops, std::vector<Rec>* recs) {
  g_arrived.fetch_add(1, std::memory_order_acq_rel);
  while (!g_go.load(std::memory_order_acquire)) { }
  for (Rec& rc : *recs) {
    rc.b = g_seq.fetch_add(1, std::memory_order_relaxed);
    exec((*ops)[rc.op], nullptr, rc.seed, rc.r);
    rc.e = g_seq.fetch_add(1, std::memory_order_relaxed);
  }
}

struct Planned { std::string ops, order; int T; };
static std::vector<Planned> make_plan(const std::vector<Op>& ops, bool quick, uint64_t seed) {
  static const int Ts[4] = {2, 4, 8, 16};
  std::vector<std::string> free_ops, single;
  for (auto& o : ops) if (!o.needs_shared) { free_ops.push_back(o.name); single.push_back(o.name); }
  std::vector<Planned> plan; Rng r(vh::hmix(vh::mix64(seed), (uint64_t)(quick ? 1 : 2)));
  int reps = quick ? 1 : 12;
  for (int rep = 0; rep < reps; ++rep)
    for (size_t k = 0; k < single.size(); ++k) plan.push_back(Planned{single[k], "same", Ts[(k + rep + seed) % 4]});
  int nall = quick ? 12 : 280;
  for (int i = 0; i < nall; ++i) {
    std::string l;
    if (i % 3 == 0) { for (auto& n : free_ops) l += (l.empty() ? "" : ",") + n; }
    else { std::vector<std::string> v = free_ops; int n = r.range(2, 10);
      for (int k = 0; k < n && !v.empty(); ++k) { size_t j = r.below(v.size()); l += (l.empty() ? "" : ",") + v[j]; v.erase(v.begin() + j); } }
    plan.push_back(Planned{l, i % 2 ? "shuffled" : "same", Ts[i % 4]});
  }
  return plan;
}

int main(int argc, char** argv) {
  register_all();
  const std::vector<Op>& ops = registry();
  std::string opl, order = "same", tier = "quick", only; int T = 4, rounds = 3; uint64_t seed = 1; bool count = false; long long planidx = -1;
  for (int i = 1; i < argc; ++i) {
    std::string a = argv[i];
    if (a == "--list") { for (auto& o : ops) if (!o.needs_shared) std::printf("%s\t%s\n", o.name.c_str(), o.cls.c_str()); return 0; }
    if (a == "--count") { count = true; continue; }
    if (i + 1 >= argc) { std::fprintf(stderr, "missing value for %s\n", a.c_str()); return 3; }
    std::string v = argv[++i];
    if (a == "--ops") opl = v; else if (a == "--threads") T = std::atoi(v.c_str()); else if (a == "--seed") seed = std::strtoull(v.c_str(), nullptr, 10);
    else if (a == "--order") order = v; else if (a == "--rounds") rounds = std::atoi(v.c_str());
    else if (a == "--tier") tier = v; else if (a == "--only") only = v;
    else { std::fprintf(stderr, "unknown arg %s\n", a.c_str()); return 3; }
  }
  if (count || !only.empty()) {
    std::vector<Planned> plan = make_plan(ops, tier != "thorough", seed);
    if (count) { std::printf("%zu\n", plan.size()); return 0; }
    size_t p = only.rfind(':'); planidx = std::atoll(only.substr(p == std::string::npos ? 0 : p + 1).c_str());
    if (planidx < 0 || (size_t)planidx >= plan.size()) { std::fprintf(stderr, "no planned trial %lld\n", planidx); return 3; }
    opl = plan[planidx].ops; order = plan[planidx].order; T = plan[planidx].T; seed = vh::hmix(seed, (uint64_t)planidx);
  }
  std::vector<uint32_t> sel;
  for (size_t p = 0; p <= opl.size();) {
    size_t q = opl.find(',', p); if (q == std::string::npos) q = opl.size();
    std::string nm = opl.substr(p, q - p); p = q + 1; if (nm.empty()) continue;
    bool found = false;
    for (uint32_t k = 0; k < ops.size(); ++k) if (ops[k].name == nm && !ops[k].needs_shared) { sel.push_back(k); found = true; }
    if (!found) { std::fprintf(stderr, "no object-free operation named %s\n", nm.c_str()); return 3; }
  }
  if (sel.empty() || T < 1 || T > 64) { std::fprintf(stderr, "nothing to do\n"); return 3; }
  Rng r(vh::hmix(vh::mix64(seed), vh::hstr(opl.c_str())));
  std::vector<std::vector<Rec>> recs(T);
  for (int t = 0; t < T; ++t) {
    for (int rd = 0; rd < rounds; ++rd) {
      std::vector<uint32_t> ord = sel;
      if (order == "shuffled") for (size_t k = ord.size(); k > 1; --k) std::swap(ord[k - 1], ord[r.below(k)]);
      for (uint32_t o : ord) { Rec rc; rc.op = o; rc.seed = vh::hmix(vh::hmix(seed, (uint64_t)t), (uint64_t)recs[t].size()); rc.b = rc.e = 0; recs[t].push_back(rc); }
    }
  }
  std::vector<std::thread> th;
  for (int t = 0; t < T; ++t) th.emplace_back(worker, &ops, &recs[t]);
  while (g_arrived.load(std::memory_order_acquire) < T) std::this_thread::yield();
  g_go.store(true, std::memory_order_release);
  for (auto& x : th) x.join();
  // determinism monitor (single-threaded, after join)
  uint64_t evals = 0, nmis = 0; std::string mis;
  for (int t = 0; t < T; ++t)
    for (size_t k = 0; k < recs[t].size(); ++k) {
      Rec& rc = recs[t][k]; Res alone; exec(ops[rc.op], nullptr, rc.seed, alone); ++evals;
      if (!alone.same(rc.r)) {
        ++nmis; int fd = alone.firstdiff(rc.r);
        if (nmis <= 5) { mis += mis.empty() ? "" : ",";
          mis += vh::J().str("op", ops[rc.op].name).i("thread", t).i("call", (long long)k).u("opseed", rc.seed).i("first_differing_output", fd)
                 .f("concurrent", fd >= 0 ? rc.r.v[fd] : 0).f("alone", fd >= 0 ? alone.v[fd] : 0).str("concurrent_str", rc.r.s).str("alone_str", alone.s).done(); }
      }
    }
  // which thread began the first call of each selected operation (first-touch winner), overlap of first calls
  std::string winners; uint64_t first_overlap = 0;
  for (uint32_t o : sel) {
    int win = -1; uint64_t wb = ~0ULL, we = 0;
    std::vector<std::pair<uint64_t, uint64_t>> firsts;
    for (int t = 0; t < T; ++t) for (auto& rc : recs[t]) if (rc.op == o) { firsts.push_back({rc.b, rc.e}); if (rc.b < wb) { wb = rc.b; we = rc.e; win = t; } break; }
    for (auto& f : firsts) if (f.first != wb && f.first < we) ++first_overlap;
    winners += (winners.empty() ? "" : ",") + std::to_string(win);
  }
  std::printf("%s\n", vh::J().str("t", "first").i("planidx", planidx).str("ops", opl).i("nops", (long long)sel.size()).i("threads", T).str("order", order).i("rounds", rounds)
              .u("seed", seed).u("evals", evals).u("mismatches", nmis).raw("witness", "[" + mis + "]").str("winners", winners)
              .u("first_calls_overlapping_winner", first_overlap).done().c_str());
  return 0;
}
