// count distinct uint64 values in the given binary files
#include <algorithm>
#include <cstdint>
#include <cstdio>
#include <vector>
int main(int argc, char** argv) {
  std::vector<uint64_t> v;
  for (int i = 1; i < argc; ++i) {
    FILE* f = std::fopen(argv[i], "rb"); if (!f) continue;
    uint64_t b[4096]; size_t n;
    while ((n = std::fread(b, 8, 4096, f)) > 0) v.insert(v.end(), b, b + n);
    std::fclose(f);
  }
  std::sort(v.begin(), v.end());
  std::printf("%zu\n", (size_t)(std::unique(v.begin(), v.end()) - v.begin()));
}
