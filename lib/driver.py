"""Driver shared by every property check: builds harnesses from /repo's working tree,
runs shards under watchdogs, turns sanitizer aborts / hangs into keyed violation
records, matches known findings, writes replay files and evidence, sets the exit code.

exit 0 = held on everything observed (KNOWN-FINDING lines allowed)
exit 1 = at least one VIOLATION not listed as known
exit 2 = harness failure / inconclusive (never folded into 0 or 1)"""
import hashlib, importlib.util, json, os, re, shutil, signal, struct, subprocess, sys, time

VERIF = os.path.dirname(os.path.dirname(os.path.abspath(__file__)))
sys.path.insert(0, os.path.join(VERIF, "lib"))
import vbuild

NCPU = os.cpu_count() or 4
SAN_ENV = {
    "ASAN_OPTIONS": "abort_on_error=1:halt_on_error=1:detect_leaks=0:allocator_may_return_null=1:"
                    "max_allocation_size_mb=2048:symbolize=1:handle_abort=0",
    "UBSAN_OPTIONS": "print_stacktrace=1:halt_on_error=1:abort_on_error=1:symbolize=1",
    "TSAN_OPTIONS": "halt_on_error=0:second_deadlock_stack=1:history_size=4",
}
for _p in ("/usr/bin/llvm-symbolizer-14", "/usr/bin/llvm-symbolizer"):
    if os.path.exists(_p):
        SAN_ENV["ASAN_SYMBOLIZER_PATH"] = _p
        SAN_ENV["UBSAN_SYMBOLIZER_PATH"] = _p
        SAN_ENV["TSAN_OPTIONS"] += ":external_symbolizer_path=" + _p
        break


def log(*a):
    print(*a, file=sys.stderr, flush=True)


class Result:
    """accumulates everything one check run observed"""
    def __init__(self, pid, tier, seed):
        self.pid, self.tier, self.seed = pid, tier, seed
        self.viols = []          # dict(key, class, run, section, idx, seed, detail, flavour)
        self.violcounts = {}     # key -> total count (incl. ones not written out)
        self.herrs = []
        self.classes = {}
        self.events = {}
        self.obs = {}
        self.samples = []
        self.evals = 0
        self.cases = 0
        self.nontrivial = 0
        self.distinct = 0
        self.runs = []           # per-run summaries
        self.extra = {}          # free-form additions to coverage
        self.inconclusive = []

    def add_viol(self, v):
        self.viols.append(v)
        self.violcounts[v["key"]] = self.violcounts.get(v["key"], 0) + 1

    def merge_stat(self, st, run):
        self.cases += st.get("cases", 0)
        self.evals += st.get("evals", 0)
        self.nontrivial += st.get("nontrivial", 0)
        for k, v in st.get("classes", {}).items():
            kk = k
            self.classes[kk] = self.classes.get(kk, 0) + v
        for k, v in st.get("events", {}).items():
            self.events[k] = self.events.get(k, 0) + v
        for k, v in st.get("violkeys", {}).items():
            # harness counted all; written-out ones are already added via add_viol
            pass
        for k, o in st.get("obs", {}).items():
            kk = k
            m = o["max"]
            if isinstance(m, str):
                continue
            cur = self.obs.get(kk)
            if cur is None:
                self.obs[kk] = dict(max=m, n=o["n"], at=o["at"], run=run)
            else:
                cur["n"] += o["n"]
                if m > cur["max"]:
                    cur.update(max=m, at=o["at"], run=run)
        for s in st.get("samples", []):
            self.samples.append(s)


def _san_key(stderr_text):
    """Derive a stable violation key from a sanitizer report: kind + first GeographicLib frame."""
    kind = None
    m = re.search(r"ERROR: AddressSanitizer: ([\w-]+)", stderr_text)
    if m:
        kind = "asan:" + m.group(1)
    else:
        m = re.search(r"runtime error: (.*)", stderr_text)
        if m:
            msg = m.group(1)
            table = [("signed integer overflow", "signed-integer-overflow"),
                     ("outside the range of representable values", "float-cast-overflow"),
                     ("out of bounds", "index-out-of-bounds"), ("shift", "shift"),
                     ("division by zero", "integer-divide-by-zero"),
                     ("null pointer", "null"), ("misaligned", "alignment"),
                     ("negation of", "signed-integer-overflow"),
                     ("not a valid value for type", "invalid-enum-or-bool"),
                     ("applying non-zero offset", "pointer-overflow"),
                     ("pointer index expression", "pointer-overflow"),
                     ("execution reached the end of a value-returning function", "missing-return"),
                     ("unreachable", "unreachable")]
            kind = "ubsan:other"
            for pat, k in table:
                if pat in msg:
                    kind = "ubsan:" + k
                    break
    if kind is None:
        if "terminate called" in stderr_text:
            m = re.search(r"terminate called after throwing an instance of '([^']+)'", stderr_text)
            return "terminate:" + (m.group(1) if m else "unknown")
        return None
    fn = None
    for m in re.finditer(r"#\d+ 0x[0-9a-f]+ in (.+?) (?:/|\(|<)", stderr_text):
        f = m.group(1)
        if "GeographicLib::" in f or f.startswith("kissfft"):
            fn = re.sub(r"\(.*$", "", f)          # strip argument list
            fn = re.sub(r"<.*?>", "", fn)
            fn = fn.replace("[abi:cxx11]", "")
            break
    if fn is None:
        m = re.search(r"(%s/(?:src|include)/[\w/.]+):(\d+)" % re.escape(vbuild.REPO), stderr_text) or \
            re.search(r"(/(?:src|include/GeographicLib)/[\w.]+):(\d+)", stderr_text)
        if m:
            fn = os.path.basename(m.group(1))
    return kind + "@" + (fn or "unknown-frame")


def run_harness(res, spec_run, tier, seed, workdir, label=None):
    """spec_run: dict(harness=src, flavour=.., shards=.., scale={quick:..,thorough:..},
                      extra_args=[..], env={..}, shard_timeout_s=..)"""
    flavour = spec_run["flavour"]
    label = label or (os.path.splitext(os.path.basename(spec_run["harness"]))[0] + "." + flavour)
    t0 = time.time()
    cpu0 = sum(os.times()[2:4])
    exe = vbuild.harness(spec_run["harness"], flavour, spec_run.get("cxxflags", ()), spec_run.get("ldflags", ()))
    tb = time.time() - t0
    shards = spec_run.get("shards", NCPU)
    scale = spec_run.get("scale", {}).get(tier, 1.0)
    timeout = spec_run.get("shard_timeout_s", {"quick": 1500, "thorough": 4 * 3600}[tier])
    wd = os.path.join(workdir, label)
    os.makedirs(wd, exist_ok=True)
    env = dict(os.environ)
    env.update(SAN_ENV)
    env.update(spec_run.get("env", {}))
    procs = {}

    def launch(sh, resume=None):
        out = os.path.join(wd, "%d.jsonl" % sh)
        prog = os.path.join(wd, "%d.prog" % sh)
        err = open(os.path.join(wd, "%d.err" % sh), "ab")
        cmd = [exe, "--seed", str(seed), "--shard", str(sh), "--nshards", str(shards), "--tier", tier,
               "--scale", str(scale), "--out", out, "--progress", prog] + list(spec_run.get("extra_args", []))
        if resume:
            cmd += ["--resume", resume]
        errpos = err.tell()
        p = subprocess.Popen(cmd, stdout=subprocess.DEVNULL, stderr=err, env=env, cwd=wd)
        procs[sh] = dict(p=p, err=err, errpos=errpos, t=time.time(), restarts=procs.get(sh, {}).get("restarts", 0),
                         prog=prog, cmd=cmd)

    secnames = [l.split()[0] for l in subprocess.run([exe, "--list"], stdout=subprocess.PIPE, text=True, env=env).stdout.splitlines()]
    for sh in range(shards):
        launch(sh)
    crashed = 0
    while procs:
        time.sleep(0.05)
        for sh in list(procs):
            pr = procs[sh]
            rc = pr["p"].poll()
            if rc is None:
                if time.time() - pr["t"] > timeout:
                    pr["p"].kill()
                    pr["p"].wait()
                    res.inconclusive.append("%s shard %d: wall-clock watchdog (%ds) fired" % (label, sh, timeout))
                    pr["err"].close()
                    del procs[sh]
                continue
            pr["err"].close()
            if rc == 0:
                del procs[sh]
                continue
            # crash or per-case watchdog: find the witness case, record, resume after it
            try:
                with open(pr["prog"], "rb") as f:
                    si, _, idx = struct.unpack("<IIQ", f.read(16))
                sec = secnames[si]
            except Exception:
                res.inconclusive.append("%s shard %d: exit %s and no progress record" % (label, sh, rc))
                del procs[sh]
                continue
            if rc != 97:
                with open(os.path.join(wd, "%d.err" % sh), "rb") as f:
                    f.seek(pr["errpos"])
                    txt = f.read().decode("utf-8", "replace")
                key = _san_key(txt)
                if key is None:
                    key = "crash:signal%d" % (-rc) if rc < 0 else "crash:exit%d" % rc
                    key += "@" + sec
                res.add_viol(dict(key=key, **{"class": "sanitizer-or-crash"}, run=label, section=sec, idx=idx,
                                  seed=seed, flavour=flavour, harness=spec_run["harness"],
                                  detail=dict(exit=rc, report=txt[-3000:])))
            crashed += 1
            if pr["restarts"] >= spec_run.get("max_restarts", 40):
                res.inconclusive.append("%s shard %d: more than %d aborts, giving up on shard" % (label, sh, pr["restarts"]))
                del procs[sh]
                continue
            pr["restarts"] += 1
            launch(sh, "%s:%d" % (sec, idx + shards))
    # collect
    nstat = 0
    for sh in range(shards):
        out = os.path.join(wd, "%d.jsonl" % sh)
        if not os.path.exists(out):
            res.inconclusive.append("%s shard %d wrote no output" % (label, sh))
            continue
        for line in open(out, errors="replace"):
            line = line.strip()
            if not line:
                continue
            try:
                r = json.loads(line)
            except Exception:
                res.inconclusive.append("%s shard %d: unparsable record" % (label, sh))
                continue
            if r["t"] == "viol":
                r["run"] = label
                r["flavour"] = flavour
                r["harness"] = spec_run["harness"]
                res.add_viol(r)
            elif r["t"] == "herr":
                res.herrs.append(dict(run=label, **r))
            elif r["t"] == "stat":
                nstat += 1
                res.merge_stat(r, label)
                for k, n in r.get("violkeys", {}).items():
                    res.violcounts[k] = max(res.violcounts.get(k, 0), n)
    summary = dict(run=label, flavour=flavour, shards=shards, scale=scale, build_s=round(tb, 1),
                   wall_s=round(time.time() - t0, 1), child_cpu_s=round(sum(os.times()[2:4]) - cpu0, 1),
                   aborted_processes=crashed, stat_records=nstat)
    res.runs.append(summary)
    log("[%s] %s: %d shards, %.0fs (build %.0fs), aborts=%d" % (res.pid, label, shards, time.time() - t0, tb, crashed))
    return wd


def count_distinct(workdir):
    """exact count of distinct non-trivial case hashes written by all shards of all runs"""
    files = []
    for r, _, fs in os.walk(workdir):
        for f in fs:
            if f.endswith(".hashes") and os.path.getsize(os.path.join(r, f)):
                files.append(os.path.join(r, f))
    if not files:
        return 0
    tool = os.path.join(vbuild.CACHE, "tools", "vdistinct")
    if not os.path.exists(tool):
        os.makedirs(os.path.dirname(tool), exist_ok=True)
        vbuild._run(["g++", "-O2", "-o", tool + ".tmp%d" % os.getpid(), os.path.join(VERIF, "lib", "vdistinct.cpp")], "vdistinct")
        os.rename(tool + ".tmp%d" % os.getpid(), tool)
    p = subprocess.run([tool] + files, stdout=subprocess.PIPE, text=True, check=True)
    return int(p.stdout.strip())


def load_known():
    p = os.path.join(VERIF, "known_findings.json")
    if not os.path.exists(p):
        return []
    return json.load(open(p)).get("findings", [])


def finish(res, spec, t0, workdir):
    """known-findings matching, replay files, evidence, exit code"""
    pid = res.pid
    known = [k for k in load_known() if k.get("property") == pid and k.get("status") == "known"]
    kmap = {k["key"]: k for k in known}
    rdir = os.path.join(VERIF, "replays", pid)
    os.makedirs(rdir, exist_ok=True)
    seen_known, bad = {}, []
    for v in res.viols:
        if v["key"] in kmap:
            seen_known[v["key"]] = seen_known.get(v["key"], 0) + 1
            continue
        bad.append(v)
    for k, n in seen_known.items():
        print("KNOWN-FINDING: property=%s %s [key=%s, seen %d×]" % (pid, kmap[k]["what"], k, res.violcounts.get(k, n)))
    perkey = {}
    for v in bad:
        h = hashlib.sha1(json.dumps([v["key"], v.get("section"), v.get("idx"), v.get("seed"), v.get("run")],
                                    sort_keys=True).encode()).hexdigest()[:16]
        path = os.path.join(rdir, h + ".json")
        v2 = dict(v)
        v2["property"] = pid
        v2["tier"] = res.tier
        with open(path, "w") as f:
            json.dump(v2, f, indent=1, default=str)
        perkey[v["key"]] = perkey.get(v["key"], 0) + 1
        if perkey[v["key"]] <= 2 and len(perkey) <= 400:      # at most 2 witnesses per key on stdout; all are in replays/
            print("VIOLATION property=%s replay=%s key=%s" % (pid, path, v["key"]))
    for h in res.herrs[:10]:
        log("HARNESS-ERROR:", json.dumps(h)[:400])
    for h in res.inconclusive[:10]:
        log("INCONCLUSIVE:", h)
    try:
        res.distinct = count_distinct(workdir)
    except Exception as e:     # pragma: no cover
        res.inconclusive.append("distinct count failed: %r" % e)
        res.distinct = 0
    samples = []
    seen_cls = set()
    for s in res.samples:
        c = (s.get("class"), s.get("section"))
        if c in seen_cls:
            continue
        seen_cls.add(c)
        samples.append(s)
        if len(samples) >= 40:
            break
    cov = dict(evaluations=int(res.evals), distinct_nontrivial=int(res.distinct),
               rule=spec.RULE, samples=samples, cases=int(res.cases),
               classes=res.classes, n_classes=len(res.classes), events=res.events,
               observed_max=res.obs, runs=res.runs,
               violation_keys={k: n for k, n in res.violcounts.items()},
               known_findings_seen=sorted(seen_known), exhaustive=bool(getattr(spec, "EXHAUSTIVE", False)))
    cov.update(res.extra)
    # thorough tier: reach monitor (gcov build of the same harnesses at 1/10 of the quick scale): executed lines / branch directions of the
    # files named in the property's anchors.  Evidence only -- never a verdict; a failure of the reach run is recorded, not fatal.
    if res.tier == "thorough" and not os.environ.get("VERIF_NO_REACH"):
        try:
            rdir = os.path.join(workdir, "reach")
            env = dict(os.environ, VERIF_REACH_DIR=rdir)
            subprocess.run([os.path.join(VERIF, "bin", "reach"), pid, "--scale-mult", "0.1", "--seed", str(res.seed)], env=env, stdout=subprocess.DEVNULL,
                           stderr=subprocess.DEVNULL, timeout=1800, check=True)
            rj = json.load(open(os.path.join(rdir, pid + ".json")))
            cov["reach"] = dict(method="gcov -b on the cov flavour, same harnesses, 0.1 x quick scale",
                                files={f: {k: d[k] for k in ("lines_instrumented", "lines_executed", "branch_directions", "branch_directions_taken")}
                                       for f, d in rj.get("files", {}).items()},
                                never_executed_lines={f: d["never_executed_lines"][:60] for f, d in rj.get("files", {}).items() if d.get("never_executed_lines")})
        except Exception as e:       # pragma: no cover
            cov["reach"] = dict(error=repr(e)[:300])
    if getattr(spec, "EXHAUSTIVE_SUBSPACES", None):
        cov["exhaustive_subspaces"] = spec.EXHAUSTIVE_SUBSPACES
    verdict = "violated" if bad else ("inconclusive" if (res.herrs or res.inconclusive or res.evals == 0) else "held")
    ev = dict(property_id=pid, tier=res.tier, seed=int(res.seed), level=spec.LEVEL, coverage=cov,
              assumptions=list(getattr(spec, "ASSUMPTIONS", [])), wall_s=round(time.time() - t0, 1),
              violations=len(bad), verdict=verdict, tree_key=vbuild.tree_key(),
              harness_errors=res.herrs[:20], inconclusive=res.inconclusive[:20])
    # evidence/ is only ever written by a run against /repo itself; a run against a scratch tree
    # (VERIF_REPO set: seeded changes, pre-fix trees) writes to work/evidence_scratch instead
    evdir = os.environ.get("VERIF_EVIDENCE_DIR") or (
        os.path.join(VERIF, "evidence") if os.path.realpath(vbuild.REPO) == "/repo"
        else os.path.join(VERIF, "work", "evidence_scratch"))
    os.makedirs(evdir, exist_ok=True)
    with open(os.path.join(evdir, pid + ".json"), "w") as f:
        json.dump(ev, f, indent=1, default=str)
    print("%s tier=%s seed=%s verdict=%s evaluations=%d distinct_nontrivial=%d classes=%d wall=%.0fs" %
          (pid, res.tier, res.seed, verdict, res.evals, res.distinct, len(res.classes), time.time() - t0))
    if bad:
        return 1
    if verdict == "inconclusive":
        return 2
    return 0


def load_spec(pid):
    p = os.path.join(VERIF, "checks", pid + ".py")
    sp = importlib.util.spec_from_file_location("spec_" + pid, p)
    m = importlib.util.module_from_spec(sp)
    sp.loader.exec_module(m)
    return m


def replay(pid, path):
    v = json.load(open(path))
    spec = load_spec(pid)
    rc = 0
    for fl in dict.fromkeys([v.get("flavour", "o2"), "o2"]):
        exe = vbuild.harness(v["harness"], fl)
        env = dict(os.environ)
        env.update(SAN_ENV)
        cmd = [exe, "--seed", str(v["seed"]), "--tier", v.get("tier", "quick"), "--only", "%s:%s" % (v["section"], v["idx"])]
        print("REPLAY [%s] %s" % (fl, " ".join(cmd)))
        p = subprocess.run(cmd, env=env)
        print("exit", p.returncode)
        rc = rc or p.returncode
    return rc


def main(argv=None):
    import argparse
    ap = argparse.ArgumentParser()
    ap.add_argument("pid")
    ap.add_argument("--tier", default=os.environ.get("VERIF_TIER", "quick"), choices=["quick", "thorough"])
    ap.add_argument("--seed", type=int, default=int(os.environ.get("VERIF_SEED", "1") or 1))
    ap.add_argument("--replay")
    ap.add_argument("--keep-work", action="store_true")
    a = ap.parse_args(argv)
    if a.replay:
        return replay(a.pid, a.replay)
    t0 = time.time()
    spec = load_spec(a.pid)
    workdir = os.path.join(VERIF, "work", "%s.%s.%d" % (a.pid, a.tier, os.getpid()))
    shutil.rmtree(workdir, ignore_errors=True)
    os.makedirs(workdir)
    res = Result(a.pid, a.tier, a.seed)
    try:
        try:
            for r in spec.RUNS:
                if a.tier not in r.get("tiers", ("quick", "thorough")):
                    continue
                run_harness(res, r, a.tier, a.seed, workdir)
            if hasattr(spec, "extra"):
                spec.extra(res, a.tier, a.seed, workdir)
        except vbuild.BuildError as e:
            log("BUILD FAILURE (inconclusive):", e)
            return 2
        rc = finish(res, spec, t0, workdir)
    finally:
        if not a.keep_work:
            shutil.rmtree(workdir, ignore_errors=True)
    return rc


if __name__ == "__main__":
    sys.exit(main())
