"""Build GeographicLib from /repo's *current working tree* in several instrumented
flavours, with a content-addressed object cache under /verif/.cache.

Nothing here depends on /repo/_build.  The cache key is the sha256 of every file
under /repo/src, /repo/include/GeographicLib and /repo/tools plus the flavour's
flags, so an edited tree always gets rebuilt and an unchanged tree is re-used."""
import fcntl, hashlib, os, re, shutil, subprocess, sys, time
from concurrent.futures import ThreadPoolExecutor

REPO = os.environ.get("VERIF_REPO", "/repo")
VERIF = os.path.dirname(os.path.dirname(os.path.abspath(__file__)))
CACHE = os.path.join(VERIF, ".cache")
GUARD = "GEOGRAPHICLIB_VERIF_HOOKS"
NCPU = os.cpu_count() or 4

COMMON = ["-std=gnu++17", "-g", "-D" + GUARD + "=1", "-DGEOGRAPHICLIB_SHARED_LIB=0"]
FLAVOURS = {
    # the repo's own optimisation level (RelWithDebInfo without NDEBUG)
    "o2":   dict(cxx="g++", flags=["-O2"], ld=[]),
    "asan": dict(cxx="g++", flags=["-O1", "-fno-omit-frame-pointer",
                 "-fsanitize=address,undefined,float-cast-overflow",
                 "-fno-sanitize-recover=all"], ld=[]),
    "tsan": dict(cxx="g++", flags=["-O1", "-fno-omit-frame-pointer", "-fsanitize=thread"], ld=[]),
    "fuzz": dict(cxx="clang++-14", flags=["-O1", "-fno-omit-frame-pointer",
                 "-fsanitize=fuzzer-no-link,address,undefined",
                 "-fno-sanitize=object-size", "-fno-sanitize-recover=all"],
                 ld=["-fsanitize=fuzzer,address,undefined"]),
    "cov":  dict(cxx="g++", flags=["-O0", "--coverage"], ld=["--coverage"]),
    # source-based coverage (clang): unlike gcov it also reports inline members that no translation unit ever called
    "covc": dict(cxx="clang++-14", flags=["-O0", "-fprofile-instr-generate", "-fcoverage-mapping"], ld=["-fprofile-instr-generate"]),
}

def _sha(paths, extra=""):
    h = hashlib.sha256()
    h.update(extra.encode())
    for p in sorted(paths):
        h.update(p.encode()); h.update(b"\0")
        with open(p, "rb") as f:
            h.update(f.read())
        h.update(b"\0")
    return h.hexdigest()

def repo_files():
    out = []
    for d, pat in (("src", r".*\.(cpp|hh|hpp)$"), ("include/GeographicLib", r".*\.(hpp|h|in)$"),
                   ("tools", r".*\.cpp$")):
        dd = os.path.join(REPO, d)
        for f in os.listdir(dd):
            if re.match(pat, f):
                out.append(os.path.join(dd, f))
    return out

def tree_key():
    return _sha(repo_files(), "v3")[:20]

def _version():
    txt = open(os.path.join(REPO, "CMakeLists.txt")).read()
    g = lambda k: int(re.search(r"set \(PROJECT_VERSION_%s (\d+)\)" % k, txt).group(1))
    return g("MAJOR"), g("MINOR"), g("PATCH")

def _config_h(incdir):
    os.makedirs(os.path.join(incdir, "GeographicLib"), exist_ok=True)
    ma, mi, pa = _version()
    vs = "%d.%d" % (ma, mi) + (".%d" % pa if pa else "")
    with open(os.path.join(incdir, "GeographicLib", "Config.h"), "w") as f:
        f.write('#define GEOGRAPHICLIB_VERSION_STRING "%s"\n' % vs)
        f.write("#define GEOGRAPHICLIB_VERSION_MAJOR %d\n#define GEOGRAPHICLIB_VERSION_MINOR %d\n"
                "#define GEOGRAPHICLIB_VERSION_PATCH %d\n" % (ma, mi, pa))
        f.write('#define GEOGRAPHICLIB_DATA "/nonexistent/GeographicLib"\n')
        f.write("#define GEOGRAPHICLIB_HAVE_LONG_DOUBLE 1\n#define GEOGRAPHICLIB_WORDS_BIGENDIAN 0\n"
                "#define GEOGRAPHICLIB_PRECISION 2\n#if !defined(GEOGRAPHICLIB_SHARED_LIB)\n"
                "#define GEOGRAPHICLIB_SHARED_LIB 0\n#endif\n")

class BuildError(Exception):
    pass

def _run(cmd, what):
    p = subprocess.run(cmd, stdout=subprocess.PIPE, stderr=subprocess.STDOUT, text=True)
    if p.returncode != 0:
        raise BuildError("%s failed:\n%s\n%s" % (what, " ".join(cmd), p.stdout[-4000:]))
    return p.stdout

class _Lock:
    def __init__(self, path):
        os.makedirs(os.path.dirname(path), exist_ok=True)
        self.f = open(path, "w")
    def __enter__(self):
        fcntl.flock(self.f, fcntl.LOCK_EX); return self
    def __exit__(self, *a):
        fcntl.flock(self.f, fcntl.LOCK_UN); self.f.close()

def _prune(keep):
    """bound the cache: keep the 8 most recently used trees, and never remove one used in the last 3 hours
    (several checks / scratch trees may be in flight at once)"""
    try:
        ds = [d for d in os.listdir(CACHE) if os.path.isdir(os.path.join(CACHE, d)) and d != "tools"]
    except FileNotFoundError:
        return
    ds = [d for d in ds if d != keep]
    ds.sort(key=lambda d: os.path.getmtime(os.path.join(CACHE, d)), reverse=True)
    now = time.time()
    for d in ds[7:]:
        if now - os.path.getmtime(os.path.join(CACHE, d)) > 3 * 3600:
            shutil.rmtree(os.path.join(CACHE, d), ignore_errors=True)


def lib(flavour):
    """Build (or fetch) libgeo.a for the flavour.  Returns dict(dir, lib, inc, cxx, flags, ld)."""
    fl = FLAVOURS[flavour]
    key = tree_key()
    root = os.path.join(CACHE, key)
    d = os.path.join(root, flavour + "-" + hashlib.sha256(" ".join(COMMON + fl["flags"]).encode()).hexdigest()[:8])
    info = dict(dir=d, lib=os.path.join(d, "libgeo.a"), inc=[os.path.join(root, "inc"),
                os.path.join(REPO, "include")], cxx=fl["cxx"], flags=COMMON + fl["flags"],
                ld=fl["ld"], key=key, flavour=flavour)
    with _Lock(os.path.join(CACHE, "lock.%s.%s" % (key, flavour))):
        if os.path.exists(os.path.join(d, "ok")):
            os.utime(root)
            return info
        os.makedirs(d, exist_ok=True)
        with _Lock(os.path.join(CACHE, "lock.inc." + key)):
            _config_h(os.path.join(root, "inc"))
        srcs = sorted(f for f in os.listdir(os.path.join(REPO, "src")) if f.endswith(".cpp"))
        incs = sum((["-I", i] for i in info["inc"]), [])
        def cc(s):
            o = os.path.join(d, s[:-4] + ".o")
            _run([fl["cxx"]] + info["flags"] + incs + ["-c", os.path.join(REPO, "src", s), "-o", o],
                 "compile " + s)
            return o
        with ThreadPoolExecutor(NCPU) as ex:
            objs = list(ex.map(cc, srcs))
        if os.path.exists(info["lib"]):
            os.unlink(info["lib"])
        _run(["ar", "rcs", info["lib"]] + objs, "ar")
        open(os.path.join(d, "ok"), "w").write(time.ctime())
        _prune(key)
    return info

def _verif_deps():
    out = []
    for sub in ("harness", "oracle", "fuzz"):
        dd = os.path.join(VERIF, sub)
        if os.path.isdir(dd):
            for r, _, fs in os.walk(dd):
                for f in fs:
                    if f.endswith((".hpp", ".h", ".inc")):
                        out.append(os.path.join(r, f))
    return out

def harness(src, flavour, extra_flags=(), extra_ld=(), name=None):
    """Compile /verif/<src> against the flavour's library; returns path of the executable."""
    L = lib(flavour)
    srcp = os.path.join(VERIF, src)
    name = name or os.path.splitext(os.path.basename(src))[0]
    hk = _sha([srcp] + _verif_deps(), " ".join(list(extra_flags) + list(extra_ld)))[:16]
    exe = os.path.join(L["dir"], "h_%s_%s" % (name, hk))
    with _Lock(os.path.join(CACHE, "lock.h.%s.%s.%s" % (L["key"], flavour, name))):
        if os.path.exists(exe):
            return exe
        for old in os.listdir(L["dir"]):
            if old.startswith("h_%s_" % name):
                os.unlink(os.path.join(L["dir"], old))
        incs = sum((["-I", i] for i in L["inc"] + [VERIF]), [])
        if L["cxx"].startswith("clang") and flavour == "covc":
            # clang does not search gcc's private include directory: expose quadmath.h (and nothing else) from it
            qd = os.path.join(CACHE, "qinc"); os.makedirs(qd, exist_ok=True)
            ql = os.path.join(qd, "quadmath.h")
            if not os.path.exists(ql):
                cand = subprocess.run(["g++", "-print-file-name=include/quadmath.h"], stdout=subprocess.PIPE, text=True).stdout.strip()
                try: os.symlink(cand, ql)
                except FileExistsError: pass
            incs += ["-I", qd]
        tmp = exe + ".tmp%d" % os.getpid()
        _run([L["cxx"]] + L["flags"] + list(extra_flags) + incs + [srcp, L["lib"]] + L["ld"] +
             list(extra_ld) + ["-lquadmath", "-lmpfr", "-lgmp", "-lpthread", "-o", tmp],
             "link harness " + name)
        os.rename(tmp, exe)
    return exe

def tools(flavour):
    """Build the 12 command-line tools (usage text stubbed).  Returns dict name->path."""
    L = lib(flavour)
    d = os.path.join(L["dir"], "tools")
    tsrc = sorted(f for f in os.listdir(os.path.join(REPO, "tools")) if f.endswith(".cpp"))
    out = {}
    with _Lock(os.path.join(CACHE, "lock.t.%s.%s" % (L["key"], flavour))):
        os.makedirs(d, exist_ok=True)
        for s in tsrc:
            n = s[:-4]
            n = "IntersectTool" if n == "IntersectTool" else n
            out[n] = os.path.join(d, n)
        if os.path.exists(os.path.join(d, "ok")):
            return out
        for s in tsrc:
            n = s[:-4]
            with open(os.path.join(d, n + ".usage"), "w") as f:
                f.write("int usage(int retval, bool /*brief*/) {\n"
                        "  ( retval ? std::cerr : std::cout ) << \"usage stub\\n\";\n"
                        "  return retval;\n}\n")
        incs = sum((["-I", i] for i in L["inc"] + [d]), [])
        def cc(s):
            n = s[:-4]
            _run([L["cxx"]] + L["flags"] + incs + [os.path.join(REPO, "tools", s), L["lib"]] +
                 [x for x in L["ld"] if "fuzzer" not in x] + ["-lpthread", "-o", os.path.join(d, n)],
                 "tool " + n)
        with ThreadPoolExecutor(NCPU) as ex:
            list(ex.map(cc, tsrc))
        open(os.path.join(d, "ok"), "w").write("ok")
    return out

if __name__ == "__main__":
    t = time.time()
    for fl in sys.argv[1:] or ["o2"]:
        i = lib(fl)
        print(fl, i["lib"], "%.1fs" % (time.time() - t))
