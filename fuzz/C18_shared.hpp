// C18 — monitors shared by harness/C18.cpp and the libFuzzer targets fuzz/C18_<scheme>.cpp.
// Library wrappers, the forward (encoder) monitor with its wrong-cell classifier and the
// reverse (decoder) monitor, templated on a Sink that has viol(key, cls, J), obs(name, v, J)
// and event(name) (vh::Ctx satisfies it).
#pragma once
#include <GeographicLib/GARS.hpp>
#include <GeographicLib/Geohash.hpp>
#include <GeographicLib/Georef.hpp>
#include <GeographicLib/OSGB.hpp>
#include <climits>
#include <typeinfo>
#include <utility>
#include <vector>
#include "harness/common.hpp"
#include "oracle/ref_codes.hpp"

namespace c18 {
namespace rc = ref::codes;
using vh::J;
static const double INF = std::numeric_limits<double>::infinity();

// ulp spacing of double at |x| (subnormal aware)
inline double ulp_d(double x) {
  x = std::fabs(x);
  double n = std::nextafter(x, std::numeric_limits<double>::infinity());
  if (std::isinf(n)) return x - std::nextafter(x, 0.0);
  return n - x;
}
inline std::string hexd(double x) { char b[48]; std::snprintf(b, sizeof b, "%a", x); return b; }
inline std::string hexs(const std::string& s) { std::string o; char b[4]; for (unsigned char c : s) { std::snprintf(b, sizeof b, "%02x", c); o += b; } return o; }
inline std::string K(const char* kind, int s, const char* what) { return std::string(kind) + ":C18/" + rc::scheme_name(s) + what; }

// ------------------------------------------------------------------ library wrappers
struct LF { int st = 0; std::string code, what; };        // st: 0 returned, 1 GeographicErr, 2 foreign exception
inline const char* fwd_sentinel() { return "\x7f<unwritten>"; }
inline LF lib_fwd(int s, double u, double v, int prec) {
  LF r; r.code = fwd_sentinel();
  try {
    switch (s) {
      case rc::GEOHASH: GeographicLib::Geohash::Forward(v, u, prec, r.code); break;
      case rc::GARS: GeographicLib::GARS::Forward(v, u, prec, r.code); break;
      case rc::GEOREF: GeographicLib::Georef::Forward(v, u, prec, r.code); break;
      default: GeographicLib::OSGB::GridReference(u, v, prec, r.code);
    }
  } catch (const GeographicLib::GeographicErr& e) { r.st = 1; r.what = e.what(); }
  catch (const std::bad_alloc&) { throw; }
  catch (const std::exception& e) { r.st = 2; r.what = std::string(typeid(e).name()) + ": " + e.what(); }
  catch (...) { r.st = 2; r.what = "non-std exception"; }
  return r;
}
static const int PREC_SENT = 0x5a5a5a5a;
struct LR { int st = 0; double u, v; int prec; std::string what; };
inline LR lib_rev(int s, const std::string& code, bool centerp) {
  LR r; r.u = vh::sentinel(1); r.v = vh::sentinel(2); r.prec = PREC_SENT;
  try {
    switch (s) {
      case rc::GEOHASH: GeographicLib::Geohash::Reverse(code, r.v, r.u, r.prec, centerp); break;
      case rc::GARS: GeographicLib::GARS::Reverse(code, r.v, r.u, r.prec, centerp); break;
      case rc::GEOREF: GeographicLib::Georef::Reverse(code, r.v, r.u, r.prec, centerp); break;
      default: GeographicLib::OSGB::GridReference(code, r.u, r.v, r.prec, centerp);
    }
  } catch (const GeographicLib::GeographicErr& e) { r.st = 1; r.what = e.what(); }
  catch (const std::bad_alloc&) { throw; }
  catch (const std::exception& e) { r.st = 2; r.what = std::string(typeid(e).name()) + ": " + e.what(); }
  catch (...) { r.st = 2; r.what = "non-std exception"; }
  return r;
}

inline bool in_alphabet(int s, const std::string& code) {
  for (char ch : code) {
    bool ok;
    switch (s) {
      case rc::GEOHASH: ok = ch != 0 && std::strchr(rc::geohash_alphabet(), ch) != nullptr; break;
      case rc::OSGB: ok = ch != 0 && (std::strchr(rc::letters25(), ch) != nullptr || (ch >= '0' && ch <= '9')); break;
      default: ok = ch != 0 && (std::strchr(rc::letters24(), ch) != nullptr || (ch >= '0' && ch <= '9'));
    }
    if (!ok) return false;
  }
  return true;
}

inline J point_json(int s, double u, double v, int prec) {
  J j;
  if (s == rc::OSGB) j.f("x", u).f("y", v).str("x_hex", hexd(u)).str("y_hex", hexd(v));
  else j.f("lat", v).f("lon", u).str("lat_hex", hexd(v)).str("lon_hex", hexd(u));
  j.i("prec", prec);
  return j;
}

// Which kind of wrong answer is it?  One key per mechanism / input class, so that known-findings
// entries can be narrow.  The cell index is separable, so each coordinate is classified on its own
// (a code that is wrong in both coordinates for different reasons gives two violations).
//   whole code:  lon==180 | negative-subnormal | length | alphabet | undecodable
//   per coordinate (delta = library index - reference index):
//     lon==180                  longitude congruent to 180 mod 360
//     lat==90                   the pole row
//     negative-subnormal        OSGB coordinate in (-1e5*denorm_min, 0)
//     tiny-negative-wraps-100km OSGB: digits of the cell at the *start* of the right 100 km square instead of its end
//     edge-minus-ulp            delta = +1 and the next double up is already in the library's cell
//     edge-plus-ulp             delta = -1 and the next double down is in the library's cell
//     upper-neighbour / lower-neighbour   delta = +-1 but the point is more than one ulp from the edge
//     wrong-cell                anything else
// which coordinate does character i of a code encode?  1 = lon/x, 2 = lat/y, 3 = both
inline int char_coord(int s, int prec, size_t i) {
  switch (s) {
    case rc::GEOHASH: return 3;
    case rc::GARS: return i < 3 ? 1 : i < 5 ? 2 : 3;
    case rc::GEOREF: return i < 4 ? ((i & 1) ? 2 : 1) : ((int)i - 4 < prec ? 1 : 2);
    default: return i < 2 ? 3 : ((int)i - 2 < prec ? 1 : 2);
  }
}
inline std::vector<std::pair<std::string, std::string>> classify(int s, double u, double v, int prec, const std::string& lib, const rc::Enc& e) {
  std::vector<std::pair<std::string, std::string>> out;          // (kind, coordinate)
  const double sub = 100000 * std::numeric_limits<double>::denorm_min();
  bool subn = s == rc::OSGB && ((u < 0 && u > -sub) || (v < 0 && v > -sub));
  rc::Dec d = rc::decode(s, lib);
  bool dec = d.st == rc::Dec::VALID && d.cell.prec == e.cell.prec && lib.size() == e.code.size();
  if (!dec) {
    // which coordinate do the differing characters encode?  (bit 0: lon/x, bit 1: lat/y)
    int touched = 0;
    if (lib.size() != e.code.size()) touched = 3;
    else for (size_t i = 0; i < lib.size(); ++i) if (lib[i] != e.code[i]) touched |= char_coord(s, e.cell.prec, i);
    bool l180 = s != rc::OSGB && rc::lon_is_180(u), pole = s != rc::OSGB && v == 90;
    const char* k = (l180 && (touched == 1 || !pole)) ? "lon==180" : (pole && (touched == 2 || !l180)) ? "lat==90"
                    : subn ? "negative-subnormal" : lib.size() != e.code.size() ? "length" : !in_alphabet(s, lib) ? "alphabet" : "undecodable";
    out.emplace_back(k, "code");
    return out;
  }
  rc::Grid g = rc::grid(s, e.cell.prec);
  int64_t per = s == rc::OSGB ? (int64_t)rc::ipow10(e.cell.prec) : 0;
  for (int co = 0; co < 2; ++co) {
    int64_t delta = co == 0 ? d.cell.iu - e.cell.iu : d.cell.iv - e.cell.iv;
    if (delta == 0) continue;
    if (co == 0 && g.wrap) { if (delta == g.ncol - 1) delta = -1; else if (delta == -(g.ncol - 1)) delta = 1; }
    double x = co == 0 ? u : v;
    const char* name = s == rc::OSGB ? (co == 0 ? "x" : "y") : (co == 0 ? "lon" : "lat");
    auto idx_of = [&](double xx) -> int64_t {
      rc::Enc n = co == 0 ? rc::encode(s, xx, v, prec) : rc::encode(s, u, xx, prec);
      if (n.st != rc::Enc::OK) return INT64_MIN;
      return co == 0 ? n.cell.iu : n.cell.iv; };
    int64_t libidx = co == 0 ? d.cell.iu : d.cell.iv;
    std::string kind;
    if (s == rc::OSGB && x < 0 && x > -sub) kind = "negative-subnormal";
    else if (s != rc::OSGB && co == 0 && rc::lon_is_180(u)) kind = "lon==180";
    else if (s != rc::OSGB && co == 1 && v == 90) kind = "lat==90";
    else if (s == rc::OSGB && per > 1 && delta == -(per - 1)) kind = "tiny-negative-wraps-100km";
    else if (delta == 1) kind = idx_of(vh::ulps(x, 1)) == libidx ? "edge-minus-ulp" : "upper-neighbour";
    else if (delta == -1) kind = idx_of(vh::ulps(x, -1)) == libidx ? "edge-plus-ulp" : "lower-neighbour";
    else kind = "wrong-cell";
    out.emplace_back(kind, name);
  }
  if (out.empty()) out.emplace_back("undecodable", "code");
  return out;
}

// ------------------------------------------------------------------ forward monitor
// l is the library's answer for (s,u,v,prec).  Returns true if the answer is the reference code.
template <class Sink>
bool judge_fwd(Sink& c, int s, double u, double v, int prec, const LF& l, const std::string& cls, rc::Enc* out = nullptr) {
  rc::Enc e = rc::encode(s, u, v, prec);
  if (out) *out = e;
  if (l.st == 2) { c.viol(K("exception", s, "-forward/foreign-exception"), cls, point_json(s, u, v, prec).str("what", l.what)); return false; }
  switch (e.st) {
    case rc::Enc::THROWS:
      c.event(std::string(rc::scheme_name(s)) + " forward: out-of-range argument -> GeographicErr expected");
      if (l.st != 1) { c.viol(K("oracle", s, "-forward/out-of-range-accepted"), cls, point_json(s, u, v, prec).str("got", l.code)); return false; }
      return true;
    case rc::Enc::THROWS_OR_INVALID:
      if (!(l.st == 1 || l.code == rc::invalid_marker(s))) { c.viol(K("oracle", s, "-forward/nan-not-invalid"), cls, point_json(s, u, v, prec).str("got", l.code)); return false; }
      return true;
    case rc::Enc::INVALID:
      c.event(std::string(rc::scheme_name(s)) + " forward: NaN -> INVALID expected");
      if (!(l.st == 0 && l.code == rc::invalid_marker(s))) { c.viol(K("oracle", s, "-forward/nan-not-invalid"), cls, point_json(s, u, v, prec).str("got", l.st ? "threw: " + l.what : l.code)); return false; }
      return true;
    default: break;
  }
  if (l.st == 1) { c.viol(K("oracle", s, "-forward/valid-rejected"), cls, point_json(s, u, v, prec).str("what", l.what).str("want", e.code)); return false; }
  if (l.code == e.code) return true;
  for (auto& kc : classify(s, u, v, prec, l.code, e))
    c.viol(K("oracle", s, "-forward/") + kc.first, cls,
           point_json(s, u, v, prec).str("wrong_coordinate", kc.second).str("got", l.code).str("got_hex", hexs(l.code)).str("want", e.code).i("eff_prec", e.cell.prec));
  return false;
}

// structural prefix law between two library codes of the same point, precisions pa < pb
inline bool prefix_ok(int s, int pa, const std::string& a, int pb, const std::string& b) {
  if (s == rc::GEOHASH || s == rc::GARS) return b.compare(0, a.size(), a) == 0 && a.size() <= b.size();
  int nl = s == rc::GEOREF ? (pa < 0 ? 2 : 4) : 2;          // letters of the shorter code
  if (a.size() < (size_t)nl || b.size() < (size_t)nl || b.compare(0, nl, a, 0, nl) != 0) return false;
  int nlb = s == rc::GEOREF ? (pb < 0 ? 2 : 4) : 2;
  int da = s == rc::GEOREF ? (pa < 2 ? 0 : pa) : pa, db = s == rc::GEOREF ? (pb < 2 ? 0 : pb) : pb;
  if (a.size() != (size_t)(nl + 2 * da) || b.size() != (size_t)(nlb + 2 * db)) return false;
  if (da == 0) return true;
  return b.compare(nlb, da, a, nl, da) == 0 && b.compare(nlb + db, da, a, nl + da, da) == 0;
}

// ------------------------------------------------------------------ reverse monitor
inline double ulp_err(double got, double want) {
  if (got == want) return 0;
  if (std::isnan(got) || std::isnan(want)) return HUGE_VAL;
  return std::fabs(got - want) / ulp_d(want);
}
inline double rev_tol_ulp(int s, int prec) {
  // Geohash / GARS / Georef decode with exact integer arithmetic and a single rounding; the OSGB
  // decoder accumulates one rounded term per digit below 1 m (prec > 5): one rounding each, at the
  // magnitude of the partial sums (between the 100 km square's origin and the result).
  return s == rc::OSGB && prec > 5 ? 1 + (prec - 5) : 1;
}
inline double osgb_scale_ulp(double want) {       // ulp at the larger of |result| and |origin of its 100 km square|
  double o = 100000 * std::floor(want / 100000);
  return ulp_d(std::max(std::fabs(want), std::fabs(o)));
}
inline std::string lower(std::string s) { for (char& c : s) if (c >= 'A' && c <= 'Z') c += 32; return s; }
inline std::string upper(std::string s) { for (char& c : s) if (c >= 'a' && c <= 'z') c -= 32; return s; }

struct RevOut { rc::Dec d; LR centre, corner; };

template <class Sink>
RevOut judge_rev(Sink& c, int s, const std::string& str, const std::string& cls) {
  RevOut o; o.d = rc::decode(s, str);
  const rc::Dec& d = o.d;
  J sj; sj.str("code", str).str("code_hex", hexs(str));
  for (int cp = 1; cp >= 0; --cp) {
    LR l = lib_rev(s, str, cp != 0);
    (cp ? o.centre : o.corner) = l;
    if (l.st == 2) { c.viol(K("exception", s, "-reverse/foreign-exception"), cls, J(sj).str("what", l.what)); continue; }
    if (d.st == rc::Dec::BAD) {
      if (l.st != 1) c.viol(K("oracle", s, "-reverse/invalid-accepted/") + d.reason, cls, J(sj).f("got_u", l.u).f("got_v", l.v).i("got_prec", l.prec).b("centerp", cp));
      else if (!(vh::is_sentinel(l.u, 1) && vh::is_sentinel(l.v, 2) && l.prec == PREC_SENT))
        c.event(std::string(rc::scheme_name(s)) + " reverse: outputs written before throwing (not part of C18)");
      continue;
    }
    if (d.st == rc::Dec::NANMARK) {
      int wantp = s == rc::OSGB ? -2 : PREC_SENT;
      if (!(l.st == 0 && std::isnan(l.u) && std::isnan(l.v) && !vh::is_sentinel(l.u, 1) && !vh::is_sentinel(l.v, 2) && l.prec == wantp))
        c.viol(K("oracle", s, "-reverse/invalid-marker-not-nan"), cls, J(sj).f("got_u", l.u).f("got_v", l.v).i("got_prec", l.prec).b("threw", l.st == 1));
      continue;
    }
    if (l.st == 1) { c.viol(K("oracle", s, "-reverse/valid-rejected"), cls, J(sj).str("what", l.what)); continue; }
    if (l.prec != d.cell.prec) c.viol(K("oracle", s, "-reverse/prec"), cls, J(sj).i("got", l.prec).i("want", d.cell.prec));
    double wu = cp ? d.cu : d.su, wv = cp ? d.cv : d.sv;
    bool deep = s == rc::OSGB && d.cell.prec > 5;
    double eu = ulp_err(l.u, wu), ev = ulp_err(l.v, wv);
    if (deep) { eu = std::fabs(l.u - wu) / osgb_scale_ulp(wu); ev = std::fabs(l.v - wv) / osgb_scale_ulp(wv); }
    double em = std::max(eu, ev);
    c.obs(std::string(rc::scheme_name(s)) + (deep ? " decode (prec>5) err / tol [tol = 1+(prec-5) ulp at the scale of the 100 km square origin]" : " decode err [ulp of the correctly rounded centre/corner; tol 1]"),
          deep ? em / rev_tol_ulp(s, d.cell.prec) : em, J(sj).b("centerp", cp));
    if (!(em <= rev_tol_ulp(s, d.cell.prec)))
      c.viol(K("oracle", s, cp ? "-reverse/centre" : "-reverse/corner"), cls,
             J(sj).f("got_u", l.u).f("got_v", l.v).f("want_u", wu).f("want_v", wv).f("err_ulp", em).i("prec", d.cell.prec));
  }
  if (d.st == rc::Dec::VALID && o.centre.st == 0) {
    // the decoded centre lies (exactly) in the cell, and re-encoding it gives back the canonical code
    if (!rc::contains(d.cell, o.centre.u, o.centre.v))
      c.viol(K("law", s, "/decoded-centre-outside-cell"), cls, J(sj).f("u", o.centre.u).f("v", o.centre.v));
    LF f = lib_fwd(s, o.centre.u, o.centre.v, d.cell.prec);
    if (!(f.st == 0 && f.code == d.canon))
      c.viol(K("law", s, "/reencode-of-decoded-centre"), cls, J(sj).str("reencoded", f.code).str("canonical", d.canon));
  }
  if (d.st != rc::Dec::BAD && o.centre.st == 0 && o.corner.st == 0) {
    // case-insensitivity: bit-identical results for lower / upper case spellings
    const std::string v[2] = {lower(str), upper(str)};
    for (const std::string& t : v) {
      if (t == str) continue;
      for (int cp = 1; cp >= 0; --cp) {
        LR l = lib_rev(s, t, cp != 0); const LR& w = cp ? o.centre : o.corner;
        if (!(l.st == 0 && vh::same_bits(l.u, w.u) && vh::same_bits(l.v, w.v) && l.prec == w.prec) &&
            !(l.st == 0 && std::isnan(l.u) && std::isnan(w.u) && std::isnan(l.v) && std::isnan(w.v) && l.prec == w.prec))
          c.viol(K("law", s, "/case-sensitive"), cls, J(sj).str("variant", t).b("threw", l.st != 0));
      }
    }
  }
  return o;
}

}  // namespace c18
