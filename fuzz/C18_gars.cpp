// libFuzzer target for C18: gars decoder/encoder against the exact reference model
#define C18_SCHEME 1
#include "fuzz/C18_target.inc"
