// C13: writers for small VALID synthetic data files (seeds for libFuzzer and the base of
// the deterministic fault enumeration).  Formats were read from Geoid.cpp:201-304,
// MagneticModel.cpp:66-190, GravityModel.cpp:38-211, SphericalEngine.cpp:384-431 and
// NearestNeighbor.hpp Save/Load.  Every writer records the byte ranges of the fields it
// wrote, so the fault enumeration can replace each header field / length word in place.
// No GeographicLib code is used here (the NearestNeighbor seeds made with the library's own
// Save() are produced in C13_targets.hpp).
#pragma once
#include <cmath>
#include <cstdint>
#include <cstring>
#include <string>
#include <vector>

namespace c13 {

enum FieldKind { F_TEXTNUM = 0, F_TEXT = 1, F_I32 = 2, F_F64 = 3, F_ID = 4, F_LINE = 5 };
struct Field { std::string name; size_t off, len; int kind; };

struct SeedFile {
  std::string name;
  std::string bytes;
  std::vector<Field> fields;
  void raw(const std::string& s) { bytes += s; }
  void field(const std::string& nm, const std::string& s, int kind) {
    fields.push_back(Field{nm, bytes.size(), s.size(), kind}); bytes += s; }
  void i32(const std::string& nm, int32_t v) {
    char b[4]; std::memcpy(b, &v, 4); field(nm, std::string(b, 4), F_I32); }
  void f64(const std::string& nm, double v, bool asfield = false) {
    char b[8]; std::memcpy(b, &v, 8);
    if (asfield) field(nm, std::string(b, 8), F_F64); else bytes += std::string(b, 8); }
  // a complete text line "key<sep>value\n"; the value and the whole line are fields
  void kv(const std::string& key, const std::string& val, int kind, const char* sep = "  ") {
    size_t l0 = bytes.size();
    raw(key); raw(sep); field(key, val, kind); raw("\n");
    fields.push_back(Field{"line:" + key, l0, bytes.size() - l0, F_LINE});
  }
};

// ------------------------------------------------------------------ geoid .pgm
// variant 0: 8 x 5 (45 degree grid), 1: 36 x 19 (10 degree grid), 2: 4 x 3 minimal with
// sparse header, 3: 2 x 3 (smallest legal raster)
inline SeedFile geoid_seed(int variant) {
  static const int W[] = {8, 36, 4, 2}, H[] = {5, 19, 3, 3};
  int w = W[variant & 3], h = H[variant & 3];
  SeedFile f; f.name = "geoid" + std::to_string(variant);
  f.field("magic", "P5", F_TEXT); f.raw("\n");
  if (variant != 2) {
    f.raw("# Geoid file in PGM format for the GeographicLib::Geoid class\n");
    f.kv("# Description", "synthetic C13 geoid", F_TEXT, " ");
    f.kv("# URL", "http://example.invalid/geoid", F_TEXT, " ");
    f.kv("# DateTime", "2026-10-01 00:00:00", F_TEXT, " ");
    f.kv("# MaxBilinearError", "0.140", F_TEXTNUM, " ");
    f.kv("# RMSBilinearError", "0.005", F_TEXTNUM, " ");
    f.kv("# MaxCubicError", "0.003", F_TEXTNUM, " ");
    f.kv("# RMSCubicError", "0.001", F_TEXTNUM, " ");
  }
  f.kv("# Offset", "-108", F_TEXTNUM, " ");
  f.kv("# Scale", "0.003", F_TEXTNUM, " ");
  if (variant != 2) {
    f.raw("# Origin 90N 0E\n# AREA_OR_POINT Point\n# Vertical_Datum WGS84\n");
  }
  { size_t l0 = f.bytes.size();
    f.field("width", std::to_string(w), F_TEXTNUM); f.raw(" ");
    f.field("height", std::to_string(h), F_TEXTNUM); f.raw("\n");
    f.fields.push_back(Field{"line:size", l0, f.bytes.size() - l0, F_LINE}); }
  f.kv("", "65535", F_TEXTNUM, "");
  f.fields.back().name = "line:maxval"; f.fields[f.fields.size() - 2].name = "maxval";
  f.fields.push_back(Field{"data", f.bytes.size(), size_t(2 * w * h), F_TEXT});
  for (int iy = 0; iy < h; ++iy)
    for (int ix = 0; ix < w; ++ix) {
      double lat = 90.0 - 180.0 * iy / (h - 1), lon = 360.0 * ix / w;
      double v = 36000 + 9000 * std::sin(lat * M_PI / 180) +
        6000 * std::cos(lat * M_PI / 180) * std::cos((lon - 30) * M_PI / 180) +
        700 * std::cos(lat * M_PI / 90) * std::sin(lon * M_PI / 60);
      unsigned u = (unsigned)std::lround(v);
      f.bytes += char((u >> 8) & 0xff); f.bytes += char(u & 0xff);
    }
  return f;
}

// ------------------------------------------------------------------ coefficient sets
inline int csize(int N, int M) { return (M + 1) * (2 * N - M + 2) / 2; }
// one coefficient block: int N, int M, Csize doubles, Ssize doubles (column-major in m)
inline void coeff_block(SeedFile& f, const std::string& tag, int N, int M, double scale, bool gravity) {
  f.i32(tag + ".N", N); f.i32(tag + ".M", M);
  if (N < 0) return;
  int nc = csize(N, M), ns = nc - (N + 1);
  size_t off0 = f.bytes.size();
  int k = 0;
  for (int m = 0; m <= M; ++m)
    for (int n = m; n <= N; ++n, ++k) {
      double v = (n == 0) ? 0.0 : scale * std::cos(1.0 + 0.7 * n + 1.3 * m) / ((n + 1.0) * (n + 1.0));
      if (gravity && n == 2 && m == 0) v = -4.84165e-4;
      if (gravity && n == 1) v = 0;
      f.f64("", v);
    }
  for (int m = 1; m <= M; ++m)
    for (int n = m; n <= N; ++n) {
      double v = scale * std::sin(0.3 + 0.9 * n + 0.4 * m) / ((n + 1.0) * (n + 1.0));
      if (gravity && n == 1) v = 0;
      f.f64("", v);
    }
  // a few of the doubles are exposed as fields (first C, C[1], last S)
  f.fields.push_back(Field{tag + ".C0", off0, 8, F_F64});
  if (nc > 1) f.fields.push_back(Field{tag + ".C1", off0 + 8, 8, F_F64});
  if (ns > 0) f.fields.push_back(Field{tag + ".Slast", off0 + size_t(nc + ns - 1) * 8, 8, F_F64});
}

struct PairSeed { SeedFile meta, cof; std::string name; };

// magnetic: variant 0: version 2, NumModels 2, NumConstants 1 (4 blocks);
//           variant 1: version 1, NumModels 1, no constants (2 blocks), Schmidt
//           variant 2: NumModels 1, NumConstants 1 with an empty (-1,-1) constant block
inline PairSeed magnetic_seed(int variant) {
  PairSeed p; p.name = "magnetic" + std::to_string(variant);
  SeedFile& m = p.meta; m.name = p.name + ".wmm";
  int nmodels = variant == 0 ? 2 : 1, nconst = variant == 1 ? 0 : 1;
  { size_t l0 = 0; m.raw("WMMF-"); m.field("version", variant == 1 ? "1" : "2", F_TEXTNUM); m.raw("\n");
    m.fields.push_back(Field{"line:signature", l0, m.bytes.size(), F_LINE}); }
  m.raw("# A synthetic World Magnetic Model style file written by the C13 monitor\n");
  m.kv("Name", "synth" + std::to_string(variant), F_TEXT);
  m.kv("Description", "Synthetic magnetic model", F_TEXT);
  m.kv("URL", "http://example.invalid/", F_TEXT);
  m.kv("Publisher", "verif", F_TEXT);
  m.kv("ReleaseDate", "2026-10-01", F_TEXT);
  m.kv("ConversionDate", "2026-10-01", F_TEXT);
  m.kv("DataVersion", "1", F_TEXT);
  m.kv("Radius", "6371200", F_TEXTNUM);
  m.kv("NumModels", std::to_string(nmodels), F_TEXTNUM);
  if (nconst || variant == 2) m.kv("NumConstants", std::to_string(nconst), F_TEXTNUM);
  m.kv("Epoch", "2025", F_TEXTNUM);
  if (nmodels > 1) m.kv("DeltaEpoch", "5", F_TEXTNUM);
  m.kv("MinTime", "2025", F_TEXTNUM);
  m.kv("MaxTime", "2035", F_TEXTNUM);
  m.kv("MinHeight", "-1000", F_TEXTNUM);
  m.kv("MaxHeight", "850000", F_TEXTNUM);
  m.kv("Type", "Linear", F_TEXT);
  m.kv("Normalization", variant == 1 ? "Schmidt" : "schmidt", F_TEXT);
  m.kv("ByteOrder", "Little", F_TEXT);
  m.kv("ID", "C13MAG0" + std::to_string(variant), F_ID);
  SeedFile& c = p.cof; c.name = p.name + ".wmm.cof";
  c.field("id", "C13MAG0" + std::to_string(variant), F_ID);
  if (variant == 0) {
    coeff_block(c, "b0", 3, 3, 30000, false); coeff_block(c, "b1", 3, 2, 29000, false);
    coeff_block(c, "b2", 2, 2, 80, false);    coeff_block(c, "b3", 1, 1, 10, false);
  } else if (variant == 1) {
    coeff_block(c, "b0", 4, 3, 30000, false); coeff_block(c, "b1", 2, 2, 50, false);
  } else {
    coeff_block(c, "b0", 2, 1, 30000, false); coeff_block(c, "b1", 1, 0, 50, false);
    coeff_block(c, "b2", -1, -1, 0, false);
  }
  return p;
}

// gravity: variant 0: gravitational (4,4) + correction (2,2); variant 1: (3,2) + empty
// correction (-1,-1), J2 form of the reference ellipsoid; variant 2: (2,0) zonal only
inline PairSeed gravity_seed(int variant) {
  PairSeed p; p.name = "gravity" + std::to_string(variant);
  SeedFile& m = p.meta; m.name = p.name + ".egm";
  { m.raw("EGMF-"); m.field("version", "1", F_TEXTNUM); m.raw("\n");
    m.fields.push_back(Field{"line:signature", 0, m.bytes.size(), F_LINE}); }
  m.raw("# A synthetic Earth Gravity Model style file written by the C13 monitor\n");
  m.kv("Name", "gsynth" + std::to_string(variant), F_TEXT);
  m.kv("Description", "Synthetic gravity model", F_TEXT);
  m.kv("URL", "http://example.invalid/", F_TEXT);
  m.kv("Publisher", "verif", F_TEXT);
  m.kv("ReleaseDate", "2026-10-01", F_TEXT);
  m.kv("ModelRadius", "6378136.3", F_TEXTNUM);
  m.kv("ModelMass", "3986004.415e8", F_TEXTNUM);
  m.kv("AngularVelocity", "7292115e-11", F_TEXTNUM);
  m.kv("ReferenceRadius", "6378137", F_TEXTNUM);
  m.kv("ReferenceMass", "3986004.418e8", F_TEXTNUM);
  if (variant == 1) m.kv("DynamicalFormFactor", "1.08263e-3", F_TEXTNUM);
  else m.kv("Flattening", "1/298.257223563", F_TEXTNUM);
  m.kv("HeightOffset", "-0.41", F_TEXTNUM);
  if (variant == 0) m.kv("CorrectionMultiplier", "0.01", F_TEXTNUM);
  m.kv("Normalization", "full", F_TEXT);
  m.kv("ByteOrder", "little", F_TEXT);
  m.kv("ID", "C13GRV0" + std::to_string(variant), F_ID);
  SeedFile& c = p.cof; c.name = p.name + ".egm.cof";
  c.field("id", "C13GRV0" + std::to_string(variant), F_ID);
  if (variant == 0) { coeff_block(c, "b0", 4, 4, 1e-6, true); coeff_block(c, "b1", 2, 2, 30, false); }
  else if (variant == 1) { coeff_block(c, "b0", 3, 2, 1e-6, true); coeff_block(c, "b1", -1, -1, 0, false); }
  else { coeff_block(c, "b0", 2, 0, 1e-6, true); coeff_block(c, "b1", 0, 0, 0, false); }
  return p;
}

// a bare coefficient stream for readcoeffs (no id)
inline SeedFile coeff_seed(int variant) {
  SeedFile c; c.name = "coeff" + std::to_string(variant);
  switch (variant) {
  case 0: coeff_block(c, "b0", 5, 5, 1, false); break;
  case 1: coeff_block(c, "b0", 6, 2, 1, false); break;
  case 2: coeff_block(c, "b0", 0, 0, 1, false); break;
  default: coeff_block(c, "b0", -1, -1, 1, false); break;
  }
  return c;
}

// pack a (metadata, coefficient) pair into one fuzz input: 1 selector byte, u16 LE length of
// the metadata, metadata bytes, coefficient bytes.
inline std::string pack_pair(unsigned char sel, const std::string& meta, const std::string& cof) {
  std::string s; s += char(sel); size_t n = meta.size() > 0xffff ? 0xffff : meta.size();
  s += char(n & 0xff); s += char((n >> 8) & 0xff); s += meta.substr(0, n); s += cof; return s;
}
inline void unpack_pair(const uint8_t* d, size_t n, unsigned char& sel, std::string& meta, std::string& cof) {
  sel = 0; meta.clear(); cof.clear();
  if (n < 3) { if (n) sel = d[0]; return; }
  sel = d[0]; size_t m = d[1] | (size_t(d[2]) << 8);
  if (m > n - 3) m = n - 3;
  meta.assign((const char*)d + 3, m); cof.assign((const char*)d + 3 + m, n - 3 - m);
}

// mark every whitespace separated token of a text as a TEXTNUM field
inline void tokenize_fields(SeedFile& f) {
  size_t i = 0, n = f.bytes.size(); int k = 0;
  while (i < n) {
    while (i < n && std::strchr(" \t\r\n", f.bytes[i])) ++i;
    size_t j = i; while (j < n && !std::strchr(" \t\r\n", f.bytes[j])) ++j;
    if (j > i) f.fields.push_back(Field{"tok" + std::to_string(k++), i, j - i, F_TEXTNUM});
    i = j;
  }
}

// mark the words of a binary NearestNeighbor<double,...> save file (version 1 layout)
inline void nnbin_fields(SeedFile& f) {
  const std::string& b = f.bytes;
  if (b.size() < 40) return;
  f.fields.push_back(Field{"id", 0, 16, F_ID});
  static const char* hn[] = {"version", "realspec", "bucket", "numpoints", "treesize", "cost"};
  for (int i = 0; i < 6; ++i) f.fields.push_back(Field{hn[i], size_t(16 + 4 * i), 4, F_I32});
  int32_t bucket, treesize; std::memcpy(&bucket, &b[24], 4); std::memcpy(&treesize, &b[32], 4);
  size_t p = 40;
  for (int i = 0; i < treesize && p + 4 <= b.size(); ++i) {
    int32_t idx; std::memcpy(&idx, &b[p], 4);
    std::string t = "n" + std::to_string(i);
    f.fields.push_back(Field{t + ".index", p, 4, F_I32}); p += 4;
    if (idx >= 0) {
      for (int k = 0; k < 4 && p + 8 <= b.size(); ++k, p += 8) f.fields.push_back(Field{t + ".bound" + std::to_string(k), p, 8, F_F64});
      for (int k = 0; k < 2 && p + 4 <= b.size(); ++k, p += 4) f.fields.push_back(Field{t + ".child" + std::to_string(k), p, 4, F_I32});
    } else {
      for (int k = 0; k < bucket && p + 4 <= b.size(); ++k, p += 4) f.fields.push_back(Field{t + ".leaf" + std::to_string(k), p, 4, F_I32});
    }
  }
}

}  // namespace c13
