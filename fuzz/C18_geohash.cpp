// libFuzzer target for C18: geohash decoder/encoder against the exact reference model
#define C18_SCHEME 0
#include "fuzz/C18_target.inc"
