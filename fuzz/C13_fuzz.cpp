// C13: libFuzzer entry.  One binary, the target is chosen by the environment:
//   C13_TARGET=<name>     one of c13::targets()
//   C13_SCRATCH=<dir>     root for the per-process scratch directory of the file targets
//   C13_VIOLLOG=<file>    monitor violations (illegal exception type, output written before a
//                         throw, law broken) are appended here as JSON lines together with
//                         the input; fuzzing continues (sanitizer reports stay fatal)
//   C13_WRITE_SEEDS=<dir> write <dir>/<target>/seed_NN and <dir>/<target>.dict for every
//                         target, then exit
#include "fuzz/C13_newlimit.hpp"
#include "fuzz/C13_targets.hpp"

#include <cstdio>
#include <map>

namespace {
struct FuzzEnv : c13::Env {
  std::string target, viollog;
  const uint8_t* cur = nullptr; size_t curn = 0;
  std::map<std::string, int> seen;
  void viol(const std::string& key, const std::string& detail) override {
    int& k = seen[key];
    if (++k > 3) return;
    std::string in((const char*)cur, curn);
    std::string hex = c13::hexs(in, 8192);
    std::string esc;
    for (unsigned char c : detail) { if (c == '"' || c == '\\') { esc += '\\'; esc += (char)c; } else if (c < 0x20 || c >= 0x7f) { char b[8]; std::snprintf(b, sizeof b, "\\u%04x", c); esc += b; } else esc += (char)c; }
    std::fprintf(stderr, "C13-MONITOR-VIOLATION key=%s target=%s input=%s\n", key.c_str(), target.c_str(), hex.c_str());
    if (!viollog.empty()) {
      FILE* f = std::fopen(viollog.c_str(), "a");
      if (f) { std::fprintf(f, "{\"key\":\"%s\",\"target\":\"%s\",\"detail\":\"%s\",\"input\":\"%s\"}\n", key.c_str(), target.c_str(), esc.c_str(), hex.c_str()); std::fclose(f); }
    }
  }
};
FuzzEnv g_env;
const c13::Target* g_target = nullptr;

void cleanup() {
  if (g_env.dir.empty()) return;
  for (const char* f : {"g.pgm", "m.wmm", "m.wmm.cof", "g.egm", "g.egm.cof"}) ::unlink((g_env.dir + "/" + f).c_str());
  ::rmdir(g_env.dir.c_str());
}
}  // namespace

extern "C" int LLVMFuzzerInitialize(int*, char***) {
  if (const char* sd = std::getenv("C13_WRITE_SEEDS")) {
    for (auto& t : c13::targets()) {
      std::string d = std::string(sd) + "/" + t.name;
      ::mkdir(d.c_str(), 0755);
      int k = 0;
      for (auto& s : c13::seeds_for(t.name)) { char nm[32]; std::snprintf(nm, sizeof nm, "/seed_%02d", k++); c13::write_file(d + nm, s); }
      c13::write_file(std::string(sd) + "/" + t.name + ".dict", c13::dict_for(t.name));
    }
    std::exit(0);
  }
  const char* tn = std::getenv("C13_TARGET");
  g_target = tn ? c13::find_target(tn) : nullptr;
  if (!g_target) { std::fprintf(stderr, "C13_TARGET not set or unknown\n"); std::exit(3); }
  g_env.target = tn;
  if (const char* v = std::getenv("C13_VIOLLOG")) g_env.viollog = v;
  const char* sc = std::getenv("C13_SCRATCH");
  std::string root = sc ? sc : "/dev/shm";
  g_env.dir = root + "/c13f." + std::to_string((long)getpid());
  ::mkdir(g_env.dir.c_str(), 0755);
  std::atexit(cleanup);
  return 0;
}

extern "C" int LLVMFuzzerTestOneInput(const uint8_t* data, size_t size) {
  g_env.cur = data; g_env.curn = size;
  g_target->fn(data, size, g_env);
  return 0;
}
