// C13: replaceable global operator new with an allocation cap.
//
// ASan's own operator new aborts ("allocator is out of memory" / "allocation-size-too-big")
// instead of throwing, even with allocator_may_return_null=1 (measured with g++ 12 and
// clang 14).  A hostile data-file header legitimately asks the library for a multi-GB
// vector; the property says that an allocation failure (std::bad_alloc) is a LEGAL exit.
// So every C13 binary replaces operator new by malloc + cap: requests above the cap (or
// malloc returning NULL) throw std::bad_alloc.  malloc/free stay intercepted by ASan /
// valgrind, so heap overflow / use-after-free detection is unaffected.
// Include in exactly one translation unit per executable.
#pragma once
#include <cstdlib>
#include <new>

namespace c13 { static const std::size_t kMaxAlloc = std::size_t(512) << 20; }

void* operator new(std::size_t n) {
  if (n > c13::kMaxAlloc) throw std::bad_alloc();
  void* p = std::malloc(n ? n : 1);
  if (!p) throw std::bad_alloc();
  return p;
}
void* operator new[](std::size_t n) { return operator new(n); }
void* operator new(std::size_t n, const std::nothrow_t&) noexcept {
  if (n > c13::kMaxAlloc) return nullptr;
  return std::malloc(n ? n : 1);
}
void* operator new[](std::size_t n, const std::nothrow_t& t) noexcept { return operator new(n, t); }
void operator delete(void* p) noexcept { std::free(p); }
void operator delete[](void* p) noexcept { std::free(p); }
void operator delete(void* p, std::size_t) noexcept { std::free(p); }
void operator delete[](void* p, std::size_t) noexcept { std::free(p); }
void operator delete(void* p, const std::nothrow_t&) noexcept { std::free(p); }
void operator delete[](void* p, const std::nothrow_t&) noexcept { std::free(p); }
