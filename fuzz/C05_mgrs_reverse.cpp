// libFuzzer target for C05: MGRS::Reverse (and MGRS::Decode) on arbitrary byte strings, with the in-target oracle
//   accepted  => the reference decoder (oracle/ref_mgrs.hpp, part A) accepts and decodes to the same zone, hemisphere,
//                precision and square (centre / SW corner), and Forward(Reverse(s)) reproduces the canonical spelling
//                apart from the band letter (which must belong to the block);
//   rejected  => the reference rejects too; only GeographicErr escapes; outputs untouched on throw (sentinels).
// The block-in-band table is computed by the g++ harness (harness/C05 --dump-table, reference Gauss-Krueger geometry)
// and loaded from $C05_TABLE: clang has no libquadmath, so the geometry half of the oracle is not compiled here.
// Violations are appended to $C05_FUZZ_LOG (3 per key) and fuzzing continues; sanitizer reports and foreign
// exceptions abort the process as usual.
#define REF_MGRS_NO_GEOMETRY 1
#include "harness/C05_judge.hpp"
#include <map>

namespace {
struct FuzzSink {
  FILE* log = nullptr; std::string statpath;
  std::map<std::string, int> nkey; std::map<std::string, uint64_t> ev, cls; std::map<std::string, double> obsmax;
  uint64_t execs = 0; std::string cur;
  ref::mgrs::Legal L;
  FuzzSink() {
    const char* p = std::getenv("C05_FUZZ_LOG");
    if (p) { log = std::fopen(p, "a"); statpath = std::string(p) + ".stat"; }
    const char* t = std::getenv("C05_TABLE");
    if (!t || !L.load(t)) { std::fprintf(stderr, "C05 fuzz: cannot load block table from $C05_TABLE\n"); std::_Exit(3); }
  }
  ~FuzzSink() { stats(); if (log) std::fclose(log); }
  void viol(const std::string& key, const std::string& c, const vh::J& d) {
    int& n = nkey[key];
    if (++n <= 3 && log) {
      std::fprintf(log, "%s\n", vh::J().str("t", "viol").str("key", key).str("class", c).str("input_hex", c05::hexs(cur)).obj("detail", d).done().c_str());
      std::fflush(log);
    }
  }
  void obs(const std::string& name, double v, const vh::J&) { if (std::isnan(v)) return; auto it = obsmax.find(name); if (it == obsmax.end() || v > it->second) obsmax[name] = v; }
  void event(const std::string& e) { ++ev[e]; }
  void stats() {
    if (statpath.empty()) return;
    FILE* f = std::fopen((statpath + ".tmp").c_str(), "w"); if (!f) return;
    std::string c1, k1, o1, e1;
    for (auto& kv : cls) { c1 += c1.empty() ? "{" : ","; c1 += "\"" + vh::jesc(kv.first) + "\":" + std::to_string(kv.second); }
    for (auto& kv : nkey) { k1 += k1.empty() ? "{" : ","; k1 += "\"" + vh::jesc(kv.first) + "\":" + std::to_string(kv.second); }
    for (auto& kv : obsmax) { o1 += o1.empty() ? "{" : ","; o1 += "\"" + vh::jesc(kv.first) + "\":" + vh::jnum(kv.second); }
    for (auto& kv : ev) { e1 += e1.empty() ? "{" : ","; e1 += "\"" + vh::jesc(kv.first) + "\":" + std::to_string(kv.second); }
    std::fprintf(f, "%s\n", vh::J().u("execs", execs).raw("classes", c1.empty() ? "{}" : c1 + "}").raw("violkeys", k1.empty() ? "{}" : k1 + "}")
                              .raw("obs", o1.empty() ? "{}" : o1 + "}").raw("events", e1.empty() ? "{}" : e1 + "}").done().c_str());
    std::fclose(f); std::rename((statpath + ".tmp").c_str(), statpath.c_str());
  }
};
FuzzSink& sink() { static FuzzSink s; return s; }
}

extern "C" int LLVMFuzzerTestOneInput(const uint8_t* data, size_t size) {
  FuzzSink& k = sink();
  std::string s((const char*)data, size);
  k.cur = s; ++k.execs;
  c05::RevOut o = c05::judge_rev(k, s, k.L, (c05::GeoT*)nullptr, "fuzz/reverse");
  c05::judge_dec(k, s, "fuzz/decode");
  namespace rm = ref::mgrs;
  ++k.cls[std::string("fuzz/reverse/") + (o.d.st == rm::Dec::VALID ? (o.d.utm ? (o.d.prec < 0 ? "ref-valid/utm-gridzone" : "ref-valid/utm") : (o.d.prec < 0 ? "ref-valid/ups-gridzone" : "ref-valid/ups"))
                                          : o.d.st == rm::Dec::INVMARK ? "ref-INV-marker" : "ref-invalid/" + o.d.reason)];
  if (k.execs % 50000 == 0) k.stats();
  return 0;
}
