// C13 (b): registry of public numeric entry points.  Each entry = name, argument kinds
// (-> valid-input generator and special-value list), output layout, "validating" flag, and a
// lambda that calls the library writing every output into a c13::Outs (pre-filled with
// sentinels by the harness).  The harness infers which outputs depend on which argument.
#pragma once
#include <GeographicLib/Accumulator.hpp>
#include <GeographicLib/AlbersEqualArea.hpp>
#include <GeographicLib/AuxLatitude.hpp>
#include <GeographicLib/AzimuthalEquidistant.hpp>
#include <GeographicLib/CassiniSoldner.hpp>
#include <GeographicLib/DST.hpp>
#include <GeographicLib/Ellipsoid.hpp>
#include <GeographicLib/EllipticFunction.hpp>
#include <GeographicLib/Geocentric.hpp>
#include <GeographicLib/Geodesic.hpp>
#include <GeographicLib/GeodesicExact.hpp>
#include <GeographicLib/GeodesicLine.hpp>
#include <GeographicLib/GeodesicLineExact.hpp>
#include <GeographicLib/Gnomonic.hpp>
#include <GeographicLib/Intersect.hpp>
#include <GeographicLib/LambertConformalConic.hpp>
#include <GeographicLib/LocalCartesian.hpp>
#include <GeographicLib/NormalGravity.hpp>
#include <GeographicLib/PolarStereographic.hpp>
#include <GeographicLib/PolygonArea.hpp>
#include <GeographicLib/Rhumb.hpp>
#include <GeographicLib/SphericalHarmonic1.hpp>
#include <GeographicLib/SphericalHarmonic2.hpp>
#include <GeographicLib/TransverseMercator.hpp>
#include <GeographicLib/TransverseMercatorExact.hpp>
#include "fuzz/C13_targets.hpp"
#include "harness/common.hpp"

#include <climits>
#include <memory>

namespace c13 {

// ------------------------------------------------------------------ argument kinds
struct Arg {
  char cls;          // 'r' real, 'i' int
  char gen;          // 'u' uniform, 'l' signed log-uniform, 'p' positive log-uniform
  double lo, hi;
  const char* tag;   // selects extra special values / out-of-range values
  double draw(vh::Rng& r) const {
    if (cls == 'i') return (double)r.range((int)lo, (int)hi);
    if (gen == 'u') return r.uniform(lo, hi);
    double m = r.logu(lo, hi); return gen == 'l' ? m * r.sign() : m;
  }
};
static const Arg LAT{'r', 'u', -89.5, 89.5, "lat"}, LON{'r', 'u', -179.5, 179.5, "lon"}, AZI{'r', 'u', -179.5, 179.5, "azi"},
  DIST{'r', 'l', 1, 1.5e7, "dist"}, ARC{'r', 'u', -170, 170, "arc"}, HGT{'r', 'u', -1000, 1e5, "h"},
  TMX{'r', 'u', -4e5, 4e5, "x"}, TMY{'r', 'u', -8e6, 8e6, "y"}, PSX{'r', 'u', -2e6, 2e6, "x"},
  UTMX{'r', 'u', 2.2e5, 7.8e5, "utmx"}, UTMY{'r', 'u', 1.1e6, 8.9e6, "utmy"}, UPSX{'r', 'u', 1.4e6, 2.6e6, "upsx"},
  GEN{'r', 'u', -10, 10, "gen"}, UNIT{'r', 'u', -0.99, 0.99, "unit"}, POS{'r', 'p', 1e-3, 1e3, "pos"},
  PHI{'r', 'u', -3, 3, "rad"}, TAU{'r', 'l', 1e-3, 50, "gen"}, ES{'r', 'u', -0.5, 0.5, "unit"}, CART{'r', 'l', 1e5, 1e7, "cart"},
  TIME{'r', 'u', 2025, 2035, "time"}, K2{'r', 'u', -2, 0.95, "k2"}, FLAT{'r', 'u', -0.1, 0.1, "unit"},
  PREC{'i', 'u', 0, 5, "prec"}, MPREC{'i', 'u', 0, 5, "mprec"}, GLEN{'i', 'u', 1, 12, "len"}, GPREC{'i', 'u', 0, 2, "gprec"}, ZONE{'i', 'u', 1, 60, "zone"},
  SETZ{'i', 'u', -1, -1, "setzone"}, YEAR{'i', 'u', 1990, 2030, "int"}, MON{'i', 'u', 1, 12, "int"}, DAY{'i', 'u', 1, 28, "int"}, DEG{'i', 'u', 0, 8, "deg"}, EPSG{'i', 'u', 32601, 32660, "epsg"}, AUXI{'i', 'u', 0, 5, "aux"};

inline const std::vector<double>& real_specials() {
  static std::vector<double> v;
  if (v.empty()) {
    const double inf = std::numeric_limits<double>::infinity(), dm = std::numeric_limits<double>::denorm_min(),
      mn = std::numeric_limits<double>::min(), mx = std::numeric_limits<double>::max();
    for (double b : {inf, 0.0, dm, mn, mx, 1e300, 1e-300, 1e20, 1e10, 2147483648.0, 4294967296.0, 9.3e18, 1.0, 45.0,
                     90.0, std::nextafter(90.0, 0.0), std::nextafter(90.0, 100.0), 180.0, std::nextafter(180.0, 0.0), std::nextafter(180.0, 200.0),
                     360.0, 540.0, 720.0, 89.99999999, 84.0, 80.0, 0.5, 1e-8, 6378137.0, 1e7, 2.0e7})
      { v.push_back(b); v.push_back(-b); }
  }
  return v;
}
inline const std::vector<double>& int_specials() {
  static const std::vector<double> v = {(double)INT_MIN, (double)(INT_MIN + 1), -1000000, -100, -5, -4, -3, -2, -1, 0, 1, 2, 3, 5, 6, 7, 10, 11, 12, 13, 18, 19, 20, 59, 60, 61, 62, 100,
    1000, 32600, 32661, 32761, 46341, 65536, 1000000, (double)(INT_MAX - 1), (double)INT_MAX};
  return v;
}
// values just outside the documented domain of an argument of a *validating* function (monitor c)
inline std::vector<double> bad_values(const Arg& a) {
  std::string t = a.tag;
  if (t == "lat") return {90.0000001, -90.0000001, 91, -91, 180, 1e10, -1e300, std::nextafter(90.0, 100.0)};
  if (t == "lon") return {1e10, -1e10, 540, 181, -181};       // longitudes are never illegal by themselves
  if (t == "utmx" || t == "upsx") return {-1e5, 0, 99999.9, 1e6, 900000.1, 1.0e7, -1e9, 3.9e6, 4.1e6, 1e300};
  if (t == "utmy") return {-1e5, -1, 9.7e6, 1.0e7, 1.01e7, 2e7, 1e300, -1e300};
  if (t == "x" || t == "y") return {-1e6, -1, 7e5, 1.3e6, 1.4e6, 1e7, -1e300};
  if (t == "prec") return {-2, -1, 12, 13, 100, INT_MAX, INT_MIN};
  if (t == "mprec") return {-2, 12, 13, 100, INT_MAX, INT_MIN};
  if (t == "len") return {-1, 0, 19, 100, INT_MAX, INT_MIN};
  if (t == "gprec") return {-1, 3, 4, 100, INT_MAX, INT_MIN};
  if (t == "zone") return {-5, -4, -3, -2, -1, 0, 61, 62, 100, INT_MAX, INT_MIN};
  if (t == "setzone") return {-5, -6, 61, 100, INT_MAX, INT_MIN, 0, 30, -2, -3};
  if (t == "epsg") return {0, -1, 32600, 32661, 32700, 32761, INT_MAX, INT_MIN};
  if (t == "int" || t == "deg") return {-1, 0, 13, 32, 1000000, INT_MAX, INT_MIN};
  if (t == "aux") return {-1, 6, 7, 100, INT_MAX, INT_MIN};
  return {1e300, -1e300};
}

// safe conversion of an int-kind argument (the harness must not commit the UB it hunts)
inline int I(double x) { return std::isnan(x) ? 0 : x >= 2147483647.0 ? INT_MAX : x <= -2147483648.0 ? INT_MIN : (int)x; }

struct Entry {
  std::string name; std::vector<Arg> in; std::string out;   // out: r real, x real exempt from the NaN rule (cache bounds), z zone-int, i int, b bool, s code-string, d dms-string, n string(no marker)
  bool validating;
  std::function<void(const double*, Outs&)> call;
};

// ------------------------------------------------------------------ shared objects
static const int NE = 3;                       // ellipsoids: WGS84, sphere, prolate
static const double EA[NE] = {6378137.0, 6.4e6, 6.4e6}, EF[NE] = {1 / 298.257223563, 0.0, -1.0 / 150};
struct World {
  std::vector<Geodesic> g, gx; std::vector<GeodesicExact> ge; std::vector<Rhumb> rh, rhx;
  std::vector<TransverseMercator> tm; std::vector<TransverseMercatorExact> tme; std::vector<PolarStereographic> ps;
  std::vector<LambertConformalConic> lcc1, lcc2; std::vector<AlbersEqualArea> alb1, alb2;
  std::vector<Geocentric> gc; std::vector<LocalCartesian> lc; std::vector<Ellipsoid> el; std::vector<AuxLatitude> aux;
  std::vector<NormalGravity> ng; std::vector<Gnomonic> gn; std::vector<AzimuthalEquidistant> ae; std::vector<CassiniSoldner> cs;
  std::vector<Intersect> xs; std::vector<EllipticFunction> ef;
  std::vector<real> C, S, C1, S1; std::unique_ptr<SphericalHarmonic> sh; std::unique_ptr<SphericalHarmonic1> sh1; std::unique_ptr<SphericalHarmonic2> sh2;
  std::unique_ptr<MagneticModel> mag; std::unique_ptr<GravityModel> grav; std::unique_ptr<Geoid> geoid, geoidc;
  DST dst; std::vector<real> dstF;
  std::string dir;
  World() : dst(8) {
    for (int k = 0; k < NE; ++k) {
      double a = EA[k], f = EF[k];
      g.emplace_back(a, f); gx.emplace_back(a, f, true); ge.emplace_back(a, f); rh.emplace_back(a, f); rhx.emplace_back(a, f, true);
      tm.emplace_back(a, f, 0.9996); tme.emplace_back(a, f > 0 ? f : 0.01, 0.9996, k == 2); ps.emplace_back(a, f, 0.994);
      lcc1.emplace_back(a, f, 40.0, 1.0); lcc2.emplace_back(a, f, 30.0, 50.0, 1.0); alb1.emplace_back(a, f, -35.0, 1.0); alb2.emplace_back(a, f, 20.0, 60.0, 1.0);
      gc.emplace_back(a, f); lc.emplace_back(48.0 - 60 * k, 2.0 + 100 * k, 100.0, gc.back()); el.emplace_back(a, f); aux.emplace_back(a, f);
      ng.emplace_back(a, 3.986004418e14, 7.292115e-5, f, true);
    }
    for (int k = 0; k < NE; ++k) { gn.emplace_back(g[k]); ae.emplace_back(g[k]); cs.emplace_back(30.0 * k - 20, 10.0 * k, g[k]); xs.emplace_back(g[k]); }
    ef.emplace_back(0.3, 0.2); ef.emplace_back(-1.5, 0.9); ef.emplace_back(0.0, 0.0);
    int N = 4; C.resize(csize(N, N)); S.resize(csize(N, N) - (N + 1));
    for (size_t i = 0; i < C.size(); ++i) C[i] = std::cos(1.0 + i) / (1.0 + i);
    for (size_t i = 0; i < S.size(); ++i) S[i] = std::sin(2.0 + i) / (2.0 + i);
    int N1 = 2; C1.resize(csize(N1, N1)); S1.resize(csize(N1, N1) - (N1 + 1));
    for (size_t i = 0; i < C1.size(); ++i) C1[i] = 0.01 * std::cos(3.0 + i);
    for (size_t i = 0; i < S1.size(); ++i) S1[i] = 0.01 * std::sin(4.0 + i);
    sh.reset(new SphericalHarmonic(C, S, N, 6.4e6)); sh1.reset(new SphericalHarmonic1(C, S, N, C1, S1, N1, 6.4e6));
    sh2.reset(new SphericalHarmonic2(C, S, N, C1, S1, N1, C1, S1, N1, 6.4e6, SphericalHarmonic2::SCHMIDT));
    dstF.assign(8, 0.0); for (int i = 0; i < 8; ++i) dstF[i] = 1.0 / (1 + i);
    dir = "/dev/shm/c13n." + std::to_string((long)getpid());
    ::mkdir(dir.c_str(), 0755);
    PairSeed m = magnetic_seed(0), gr = gravity_seed(0);
    write_file(dir + "/m.wmm", m.meta.bytes); write_file(dir + "/m.wmm.cof", m.cof.bytes);
    write_file(dir + "/g.egm", gr.meta.bytes); write_file(dir + "/g.egm.cof", gr.cof.bytes);
    write_file(dir + "/g.pgm", geoid_seed(1).bytes);
    mag.reset(new MagneticModel("m", dir)); grav.reset(new GravityModel("g", dir));
    geoid.reset(new Geoid("g", dir, false, true)); geoidc.reset(new Geoid("g", dir, true, false));
  }
  ~World() { for (const char* f : {"m.wmm", "m.wmm.cof", "g.egm", "g.egm.cof", "g.pgm"}) ::unlink((dir + "/" + f).c_str()); ::rmdir(dir.c_str()); }
};
inline World& W() { static World w; return w; }
static int g_e = 0;                             // ellipsoid of the current case

inline std::vector<Entry>& registry() { static std::vector<Entry> R; return R; }
inline void reg(const char* name, std::vector<Arg> in, const char* out, bool validating, std::function<void(const double*, Outs&)> f) {
  registry().push_back(Entry{name, in, out, validating, f}); }

inline void register_part2();
inline void register_part3();

inline void register_all() {
  if (!registry().empty()) return;
  typedef const double* A; typedef Outs& O;
  // ---------------- Geodesic (series, exact flag, GeodesicExact)
  reg("Geodesic::Inverse", {LAT, LON, LAT, LON}, "rrrrrrrr", false, [](A a, O o) { o.r[0] = W().g[g_e].Inverse(a[0], a[1], a[2], a[3], o.r[1], o.r[2], o.r[3], o.r[4], o.r[5], o.r[6], o.r[7]); });
  reg("Geodesic::Inverse(s12)", {LAT, LON, LAT, LON}, "rr", false, [](A a, O o) { o.r[0] = W().g[g_e].Inverse(a[0], a[1], a[2], a[3], o.r[1]); });
  reg("Geodesic::Inverse(azi)", {LAT, LON, LAT, LON}, "rrr", false, [](A a, O o) { o.r[0] = W().g[g_e].Inverse(a[0], a[1], a[2], a[3], o.r[1], o.r[2]); });
  reg("Geodesic::Direct", {LAT, LON, AZI, DIST}, "rrrrrrrr", false, [](A a, O o) { o.r[0] = W().g[g_e].Direct(a[0], a[1], a[2], a[3], o.r[1], o.r[2], o.r[3], o.r[4], o.r[5], o.r[6], o.r[7]); });
  reg("Geodesic::Direct(pos)", {LAT, LON, AZI, DIST}, "rrr", false, [](A a, O o) { o.r[0] = W().g[g_e].Direct(a[0], a[1], a[2], a[3], o.r[1], o.r[2]); });
  reg("Geodesic::ArcDirect", {LAT, LON, AZI, ARC}, "rrrrrrrr", false, [](A a, O o) { W().g[g_e].ArcDirect(a[0], a[1], a[2], a[3], o.r[0], o.r[1], o.r[2], o.r[3], o.r[4], o.r[5], o.r[6], o.r[7]); });
  reg("Geodesic::GenDirect(unroll)", {LAT, LON, AZI, DIST}, "rrrrrrrrr", false, [](A a, O o) { o.r[0] = W().g[g_e].GenDirect(a[0], a[1], a[2], false, a[3], Geodesic::ALL | Geodesic::LONG_UNROLL, o.r[1], o.r[2], o.r[3], o.r[4], o.r[5], o.r[6], o.r[7], o.r[8]); });
  reg("Geodesic::GenInverse(unroll)", {LAT, LON, LAT, LON}, "rrrrrrrr", false, [](A a, O o) { o.r[0] = W().g[g_e].GenInverse(a[0], a[1], a[2], a[3], Geodesic::ALL | Geodesic::LONG_UNROLL, o.r[1], o.r[2], o.r[3], o.r[4], o.r[5], o.r[6], o.r[7]); });
  reg("Geodesic(exact)::Inverse", {LAT, LON, LAT, LON}, "rrrrrrrr", false, [](A a, O o) { o.r[0] = W().gx[g_e].Inverse(a[0], a[1], a[2], a[3], o.r[1], o.r[2], o.r[3], o.r[4], o.r[5], o.r[6], o.r[7]); });
  reg("Geodesic(exact)::Direct", {LAT, LON, AZI, DIST}, "rrrrrrrr", false, [](A a, O o) { o.r[0] = W().gx[g_e].Direct(a[0], a[1], a[2], a[3], o.r[1], o.r[2], o.r[3], o.r[4], o.r[5], o.r[6], o.r[7]); });
  reg("GeodesicExact::Inverse", {LAT, LON, LAT, LON}, "rrrrrrrr", false, [](A a, O o) { o.r[0] = W().ge[g_e].Inverse(a[0], a[1], a[2], a[3], o.r[1], o.r[2], o.r[3], o.r[4], o.r[5], o.r[6], o.r[7]); });
  reg("GeodesicExact::Direct", {LAT, LON, AZI, DIST}, "rrrrrrrr", false, [](A a, O o) { o.r[0] = W().ge[g_e].Direct(a[0], a[1], a[2], a[3], o.r[1], o.r[2], o.r[3], o.r[4], o.r[5], o.r[6], o.r[7]); });
  reg("GeodesicExact::ArcDirect", {LAT, LON, AZI, ARC}, "rrrrrrrr", false, [](A a, O o) { W().ge[g_e].ArcDirect(a[0], a[1], a[2], a[3], o.r[0], o.r[1], o.r[2], o.r[3], o.r[4], o.r[5], o.r[6], o.r[7]); });
  // ---------------- lines
  reg("GeodesicLine::Position", {LAT, LON, AZI, DIST}, "rrrrrrrr", false, [](A a, O o) { GeodesicLine l(W().g[g_e], a[0], a[1], a[2]); o.r[0] = l.Position(a[3], o.r[1], o.r[2], o.r[3], o.r[4], o.r[5], o.r[6], o.r[7]); });
  reg("GeodesicLine::ArcPosition", {LAT, LON, AZI, ARC}, "rrrrrrrr", false, [](A a, O o) { GeodesicLine l = W().g[g_e].Line(a[0], a[1], a[2]); l.ArcPosition(a[3], o.r[0], o.r[1], o.r[2], o.r[3], o.r[4], o.r[5], o.r[6], o.r[7]); });
  reg("GeodesicLine::inspectors", {LAT, LON, AZI}, "rrrrrr", false, [](A a, O o) { GeodesicLine l(W().g[g_e], a[0], a[1], a[2]); o.r[0] = l.Latitude(); o.r[1] = l.Longitude(); o.r[2] = l.Azimuth(); l.Azimuth(o.r[3], o.r[4]); o.r[5] = l.EquatorialAzimuth(); });
  reg("Geodesic::InverseLine", {LAT, LON, LAT, LON, DIST}, "rrrrr", false, [](A a, O o) { GeodesicLine l = W().g[g_e].InverseLine(a[0], a[1], a[2], a[3]); o.r[0] = l.Distance(); o.r[1] = l.Arc(); o.r[2] = l.Position(a[4], o.r[3], o.r[4]); });
  reg("Geodesic::DirectLine", {LAT, LON, AZI, DIST, DIST}, "rrrrr", false, [](A a, O o) { GeodesicLine l = W().g[g_e].DirectLine(a[0], a[1], a[2], a[3]); o.r[0] = l.Distance(); o.r[1] = l.Arc(); o.r[2] = l.Position(a[4], o.r[3], o.r[4]); });
  reg("Geodesic::ArcDirectLine", {LAT, LON, AZI, ARC}, "rr", false, [](A a, O o) { GeodesicLine l = W().g[g_e].ArcDirectLine(a[0], a[1], a[2], a[3]); o.r[0] = l.Distance(); o.r[1] = l.Arc(); });
  reg("GeodesicLine::SetDistance", {LAT, LON, AZI, DIST}, "rr", false, [](A a, O o) { GeodesicLine l(W().g[g_e], a[0], a[1], a[2]); l.SetDistance(a[3]); o.r[0] = l.Distance(); o.r[1] = l.Arc(); });
  reg("GeodesicLine::SetArc", {LAT, LON, AZI, ARC}, "rr", false, [](A a, O o) { GeodesicLine l(W().g[g_e], a[0], a[1], a[2]); l.SetArc(a[3]); o.r[0] = l.Distance(); o.r[1] = l.Arc(); });
  reg("GeodesicLineExact::Position", {LAT, LON, AZI, DIST}, "rrrrrrrr", false, [](A a, O o) { GeodesicLineExact l(W().ge[g_e], a[0], a[1], a[2]); o.r[0] = l.Position(a[3], o.r[1], o.r[2], o.r[3], o.r[4], o.r[5], o.r[6], o.r[7]); });
  reg("GeodesicLineExact::ArcPosition", {LAT, LON, AZI, ARC}, "rrrrrrrr", false, [](A a, O o) { GeodesicLineExact l = W().ge[g_e].Line(a[0], a[1], a[2]); l.ArcPosition(a[3], o.r[0], o.r[1], o.r[2], o.r[3], o.r[4], o.r[5], o.r[6], o.r[7]); });
  reg("GeodesicExact::InverseLine", {LAT, LON, LAT, LON}, "rr", false, [](A a, O o) { GeodesicLineExact l = W().ge[g_e].InverseLine(a[0], a[1], a[2], a[3]); o.r[0] = l.Distance(); o.r[1] = l.Arc(); });
  // ---------------- Rhumb
  reg("Rhumb::Inverse", {LAT, LON, LAT, LON}, "rrr", false, [](A a, O o) { W().rh[g_e].Inverse(a[0], a[1], a[2], a[3], o.r[0], o.r[1], o.r[2]); });
  reg("Rhumb::Direct", {LAT, LON, AZI, DIST}, "rrr", false, [](A a, O o) { W().rh[g_e].Direct(a[0], a[1], a[2], a[3], o.r[0], o.r[1], o.r[2]); });
  reg("Rhumb(exact)::Inverse", {LAT, LON, LAT, LON}, "rrr", false, [](A a, O o) { W().rhx[g_e].Inverse(a[0], a[1], a[2], a[3], o.r[0], o.r[1], o.r[2]); });
  reg("Rhumb(exact)::Direct", {LAT, LON, AZI, DIST}, "rrr", false, [](A a, O o) { W().rhx[g_e].Direct(a[0], a[1], a[2], a[3], o.r[0], o.r[1], o.r[2]); });
  reg("RhumbLine::Position", {LAT, LON, AZI, DIST}, "rrr", false, [](A a, O o) { RhumbLine l = W().rh[g_e].Line(a[0], a[1], a[2]); l.Position(a[3], o.r[0], o.r[1], o.r[2]); });
  reg("RhumbLine::inspectors", {LAT, LON, AZI}, "rrr", false, [](A a, O o) { RhumbLine l = W().rhx[g_e].Line(a[0], a[1], a[2]); o.r[0] = l.Latitude(); o.r[1] = l.Longitude(); o.r[2] = l.Azimuth(); });
  register_part2();
  register_part3();
}

}  // namespace c13
