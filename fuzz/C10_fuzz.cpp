// libFuzzer targets for C10.  One binary; the target is chosen by the environment variable
// C10_TARGET (dms_decode, dms_latlon, dms_angle, dms_azimuth, utility_val, utility_fract,
// utility_nummatch, geocoords_reset).  Every input goes through the same monitors as the
// volume harness (harness/C10_monitors.hpp): accepted => documented form with the right value
// and re-encode/decode closes; rejected => not a documented form; only GeographicErr escapes.
// A monitor firing prints one line "C10-FUZZ-VIOLATION key=... detail=..." and aborts, so
// libFuzzer stores the input as a crash artifact.
#include "harness/C10_monitors.hpp"
#include <cstdio>
#include <cstdlib>

using namespace c10;

static uint64_t g_n = 0, g_ret = 0, g_err = 0;
struct AbortSink : Sink {
  void viol(const std::string& key, const std::string& cls, const J& d) override {
    std::fprintf(stderr, "\nC10-FUZZ-VIOLATION key=%s class=%s detail=%s\n", key.c_str(), cls.c_str(), d.done().c_str());
    std::fflush(stderr); std::abort();
  }
  void event(const std::string&, uint64_t) override {}
  void obs(const std::string&, double, const J&) override {}
};
static int g_target = 0;
static const char* const kTargets[] = {"dms_decode", "dms_latlon", "dms_angle", "dms_azimuth", "utility_val", "utility_fract", "utility_nummatch", "geocoords_reset"};
static void stats() { std::fprintf(stderr, "C10-FUZZ-STATS target=%s inputs=%llu\n", kTargets[g_target], (unsigned long long)g_n); }

extern "C" int LLVMFuzzerInitialize(int*, char***) {
  const char* t = std::getenv("C10_TARGET");
  g_target = -1;
  for (int i = 0; i < 8; ++i) if (t && std::string(t) == kTargets[i]) g_target = i;
  if (g_target < 0) { std::fprintf(stderr, "C10_TARGET not set to a known target\n"); std::exit(3); }
  std::atexit(stats);
  return 0;
}

extern "C" int LLVMFuzzerTestOneInput(const uint8_t* data, size_t size) {
  static AbortSink k;
  std::string s((const char*)data, size);
  ++g_n;
  switch (g_target) {
    case 0: check_decode(s, k, "fuzz/dms_decode"); break;
    case 1: { size_t p = s.find('\n'); std::string a = p == std::string::npos ? s : s.substr(0, p), b = p == std::string::npos ? std::string("10") : s.substr(p + 1);
      check_latlon(a, b, size & 1, k, "fuzz/dms_latlon"); break; }
    case 2: check_angle(s, k, "fuzz/dms_angle"); break;
    case 3: check_azimuth(s, k, "fuzz/dms_azimuth"); break;
    case 4: check_val_double(s, k, "fuzz/utility_val"); check_val_int(s, k, "fuzz/utility_val"); break;
    case 5: check_fract(s, k, "fuzz/utility_fract"); break;
    case 6: check_nummatch(s, k, "fuzz/utility_nummatch"); break;
    default: check_geocoords_reset(s, size & 1, size & 2, k, "fuzz/geocoords_reset"); break;
  }
  return 0;
}
