// C13 (a): constructor / validating-setter matrix.  For every parameter position the
// expectation is computed from the DOCUMENTED legal domain of the class:
//   +1 (or 11 = same with a key suffix) must throw GeographicErr (and nothing else), 0 must not throw, -1 either (only the
//   exception type is judged: GeographicErr / bad_alloc).
#pragma once
#include "fuzz/C13_numreg.hpp"

namespace c13 {

struct Ctor {
  std::string name; std::vector<double> typ; std::string kinds;
  std::function<void(const double*)> make; std::function<int(const double*)> expect;
};

inline bool okA(double a) { return std::isfinite(a) && a > 0; }
inline bool okF(double f) { return std::isfinite(f) && f < 1; }
inline bool okLat(double l) { return std::fabs(l) <= 90; }
inline bool xA(double a) { return a < 1e-150 || a > 1e150; }          // intermediate overflow/underflow territory
inline bool xF(double f) { return f < -1e10; }
inline int EX(bool legal, bool extreme = false) { return !legal ? 1 : (extreme ? -1 : 0); }
inline int ell(const double* p) { return EX(okA(p[0]) && okF(p[1]), xA(p[0]) || xF(p[1])); }

inline const std::vector<double>& ctor_specials(char k) {
  static std::map<char, std::vector<double>> M;
  if (M.empty()) {
    const double nan = std::numeric_limits<double>::quiet_NaN(), inf = std::numeric_limits<double>::infinity(),
      dm = std::numeric_limits<double>::denorm_min(), mn = std::numeric_limits<double>::min(), mx = std::numeric_limits<double>::max();
    M['a'] = {nan, inf, -inf, 0.0, -0.0, -1, -6.4e6, dm, -dm, mn, mx, -mx, 1e308, 1e-300, 1e300, 1, 1e-3, 1e12};
    M['f'] = {nan, inf, -inf, 0.0, -0.0, 1, std::nextafter(1.0, 0.0), std::nextafter(1.0, 2.0), 2, 1e308, -1e308, -1, 0.5, -0.5, 0.99, -0.99, dm, -dm, 1e-10, -1e-10, 1e-300, 0.1, -0.1, 0.02, -0.02, 1 / 150.0};
    M['k'] = {nan, inf, -inf, 0.0, -0.0, -1, -0.9996, dm, -dm, mn, 1, 1e308, 1e-300, mx, 0.5, 2};
    M['l'] = {nan, inf, -inf, 0.0, -0.0, 90, -90, std::nextafter(90.0, 100.0), std::nextafter(90.0, 0.0), -std::nextafter(90.0, 100.0), -std::nextafter(90.0, 0.0), 91, -91, 180, -180, 270, 1e10, -1e10, 1e308, 45, -45, dm, -dm, 89.999999, -89.999999};
    M['s'] = {nan, inf, -inf, 0.0, -0.0, 1, -1, std::nextafter(1.0, 2.0), -std::nextafter(1.0, 2.0), std::nextafter(1.0, 0.0), 2, -2, 0.5, -0.5, dm, -dm, 1e308};
    M['r'] = {nan, inf, -inf, 0.0, -0.0, 1, -1, 1e308, -1e308, dm, -dm, 1e-300, 90, -90, 180, 360, 1e10};
    M['i'] = {(double)INT_MIN, -1000000, -3, -2, -1, 0, 1, 2, 3, 4, 5, 6, 9, 10, 11, 12, 100, 46341, 65536, 1000000, (double)(INT_MAX - 1), (double)INT_MAX};
  }
  return M[k];
}

inline std::vector<Ctor>& ctors() {
  static std::vector<Ctor> C;
  if (!C.empty()) return C;
  typedef const double* P;
  const double a0 = 6378137.0, f0 = 1 / 298.257223563;
  auto add = [&](const char* n, std::vector<double> typ, const char* kinds, std::function<void(P)> mk, std::function<int(P)> ex) { C.push_back(Ctor{n, typ, kinds, mk, ex}); };
  // ---- (a, f) ellipsoid classes
  add("Geodesic(a,f)", {a0, f0}, "af", [](P p) { Geodesic g(p[0], p[1]); (void)g; }, ell);
  add("Geodesic(a,f,exact)", {a0, f0}, "af", [](P p) { Geodesic g(p[0], p[1], true); (void)g; }, ell);
  add("GeodesicExact(a,f)", {a0, f0}, "af", [](P p) { GeodesicExact g(p[0], p[1]); (void)g; }, ell);
  add("Rhumb(a,f)", {a0, f0}, "af", [](P p) { Rhumb g(p[0], p[1]); (void)g; }, ell);
  add("Rhumb(a,f,exact)", {a0, f0}, "af", [](P p) { Rhumb g(p[0], p[1], true); (void)g; }, ell);
  add("Geocentric(a,f)", {a0, f0}, "af", [](P p) { Geocentric g(p[0], p[1]); (void)g; }, ell);
  add("Ellipsoid(a,f)", {a0, f0}, "af", [](P p) { Ellipsoid g(p[0], p[1]); (void)g; }, ell);
  add("AuxLatitude(a,f)", {a0, f0}, "af", [](P p) { AuxLatitude g(p[0], p[1]); (void)g; }, ell);
  add("AuxLatitude::axes(a,b)", {a0, a0 * (1 - f0)}, "aa", [](P p) { AuxLatitude g(AuxLatitude::axes(p[0], p[1])); (void)g; },
      [](P p) { return EX(okA(p[0]) && okA(p[1]), xA(p[0]) || xA(p[1])); });
  add("Intersect(Geodesic(a,f))", {a0, f0}, "af", [](P p) { Geodesic g(p[0], p[1]); Intersect x(g); (void)x; },
      [](P p) { return EX(okA(p[0]) && okF(p[1]), xA(p[0]) || std::fabs(p[1]) > 0.05); });     // "too eccentric" is documented to throw
  add("Intersect(Geodesic(a,f,exact))", {a0, f0}, "af", [](P p) { Geodesic g(p[0], p[1], true); Intersect x(g); (void)x; },
      [](P p) { return EX(okA(p[0]) && okF(p[1]), xA(p[0]) || std::fabs(p[1]) > 0.05); });
  add("NormalGravity(a,GM,omega,f)", {a0, 3.986004418e14, 7.292115e-5, f0}, "arrf", [](P p) { NormalGravity g(p[0], p[1], p[2], p[3], true); (void)g; },
      [](P p) { bool legal = okA(p[0]) && std::isfinite(p[1]) && std::isfinite(p[2]) && okF(p[3]);
        return EX(legal, xA(p[0]) || xF(p[3]) || std::fabs(p[2]) > 1e100 || std::fabs(p[1]) > 1e200); });
  add("NormalGravity(a,GM,omega,J2)", {a0, 3.986004418e14, 7.292115e-5, 1.08263e-3}, "arrr", [](P p) { NormalGravity g(p[0], p[1], p[2], p[3], false); (void)g; },
      [](P p) { if (!(okA(p[0]) && std::isfinite(p[1]) && std::isfinite(p[2]))) return 1;
        bool typical = p[0] == 6378137.0 && p[1] == 3.986004418e14 && p[2] == 7.292115e-5 && p[3] == 1.08263e-3; return typical ? 0 : -1; });
  // ---- projections
  add("TransverseMercator(a,f,k0)", {a0, f0, 0.9996}, "afk", [](P p) { TransverseMercator t(p[0], p[1], p[2]); (void)t; },
      [](P p) { return EX(okA(p[0]) && okF(p[1]) && okA(p[2]), xA(p[0]) || xF(p[1]) || xA(p[2])); });
  add("TransverseMercator(a,f,k0,exact)", {a0, f0, 0.9996}, "afk", [](P p) { TransverseMercator t(p[0], p[1], p[2], true); (void)t; },
      [](P p) { return EX(okA(p[0]) && okF(p[1]) && p[1] > 0 && okA(p[2]), xA(p[0]) || p[1] < 1e-100 || xA(p[2])); });
  add("TransverseMercatorExact(a,f,k0)", {a0, f0, 0.9996}, "afk", [](P p) { TransverseMercatorExact t(p[0], p[1], p[2]); (void)t; },
      [](P p) { return EX(okA(p[0]) && okF(p[1]) && p[1] > 0 && okA(p[2]), xA(p[0]) || p[1] < 1e-100 || xA(p[2])); });
  add("TransverseMercatorExact(a,f,k0,extendp)", {a0, f0, 0.9996}, "afk", [](P p) { TransverseMercatorExact t(p[0], p[1], p[2], true); (void)t; },
      [](P p) { return EX(okA(p[0]) && okF(p[1]) && p[1] > 0 && okA(p[2]), xA(p[0]) || p[1] < 1e-100 || xA(p[2])); });
  add("PolarStereographic(a,f,k0)", {a0, f0, 0.994}, "afk", [](P p) { PolarStereographic t(p[0], p[1], p[2]); (void)t; },
      [](P p) { return EX(okA(p[0]) && okF(p[1]) && okA(p[2]), xA(p[0]) || xF(p[1]) || xA(p[2])); });
  add("PolarStereographic::SetScale(lat,k)", {81.0, 0.994}, "lk", [](P p) { PolarStereographic t(6378137.0, 1 / 298.257223563, 1.0); t.SetScale(p[0], p[1]); },
      [](P p) { return EX(p[0] > -90 && p[0] <= 90 && okA(p[1]), xA(p[1])); });
  add("LambertConformalConic(a,f,stdlat,k0)", {a0, f0, 40.0, 1.0}, "aflk", [](P p) { LambertConformalConic t(p[0], p[1], p[2], p[3]); (void)t; },
      [](P p) { return EX(okA(p[0]) && okF(p[1]) && okLat(p[2]) && okA(p[3]), xA(p[0]) || xF(p[1]) || xA(p[3])); });
  add("LambertConformalConic(a,f,stdlat1,stdlat2,k1)", {a0, f0, 30.0, 50.0, 1.0}, "afllk", [](P p) { LambertConformalConic t(p[0], p[1], p[2], p[3], p[4]); (void)t; },
      [](P p) { bool legal = okA(p[0]) && okF(p[1]) && okLat(p[2]) && okLat(p[3]) && okA(p[4]);
        bool pole = std::fabs(p[2]) == 90 || std::fabs(p[3]) == 90;
        if (legal && pole && p[2] != p[3]) return 1;
        return EX(legal, xA(p[0]) || xF(p[1]) || xA(p[4])); });
  add("LambertConformalConic(a,f,sin1,cos1,sin2,cos2,k1)", {a0, f0, 0.5, 0.8660254037844387, 0.766044443118978, 0.6427876096865394, 1.0}, "afssssk",
      [](P p) { LambertConformalConic t(p[0], p[1], p[2], p[3], p[4], p[5], p[6]); (void)t; },
      [](P p) { if (!(okA(p[0]) && okF(p[1]) && okA(p[6]))) return 1;
        for (int k = 2; k < 6; ++k) if (!(std::fabs(p[k]) <= 1)) return 1;           // NaN, inf, |.| > 1: not a sine/cosine
        bool typical = p[2] == 0.5 && p[4] == 0.766044443118978 && p[3] > 0.5 && p[5] > 0.5;
        return typical && !(xA(p[0]) || xF(p[1]) || xA(p[6])) ? 0 : -1; });
  add("LambertConformalConic::SetScale(lat,k)", {35.0, 0.9}, "lk", [](P p) { LambertConformalConic t(6378137.0, 1 / 298.257223563, 30.0, 50.0, 1.0); t.SetScale(p[0], p[1]); },
      [](P p) { if (!(okLat(p[0]) && okA(p[1]))) return 1; return std::fabs(p[0]) == 90 ? -1 : EX(true, xA(p[1])); });
  add("AlbersEqualArea(a,f,stdlat,k0)", {a0, f0, 40.0, 1.0}, "aflk", [](P p) { AlbersEqualArea t(p[0], p[1], p[2], p[3]); (void)t; },
      [](P p) { return EX(okA(p[0]) && okF(p[1]) && okLat(p[2]) && okA(p[3]), xA(p[0]) || xF(p[1]) || xA(p[3])); });
  add("AlbersEqualArea(a,f,stdlat1,stdlat2,k1)", {a0, f0, 30.0, 50.0, 1.0}, "afllk", [](P p) { AlbersEqualArea t(p[0], p[1], p[2], p[3], p[4]); (void)t; },
      [](P p) { bool legal = okA(p[0]) && okF(p[1]) && okLat(p[2]) && okLat(p[3]) && okA(p[4]);
        if (legal && std::fabs(p[2]) == 90 && std::fabs(p[3]) == 90 && p[2] != p[3]) return 11;   // opposite poles: own key suffix
        return EX(legal, xA(p[0]) || xF(p[1]) || xA(p[4])); });
  add("AlbersEqualArea(a,f,sin1,cos1,sin2,cos2,k1)", {a0, f0, 0.5, 0.8660254037844387, 0.766044443118978, 0.6427876096865394, 1.0}, "afssssk",
      [](P p) { AlbersEqualArea t(p[0], p[1], p[2], p[3], p[4], p[5], p[6]); (void)t; },
      [](P p) { if (!(okA(p[0]) && okF(p[1]) && okA(p[6]))) return 1;
        for (int k = 2; k < 6; ++k) if (!(std::fabs(p[k]) <= 1)) return 1;
        bool typical = p[2] == 0.5 && p[4] == 0.766044443118978 && p[3] > 0.5 && p[5] > 0.5;
        return typical && !(xA(p[0]) || xF(p[1]) || xA(p[6])) ? 0 : -1; });
  add("AlbersEqualArea::SetScale(lat,k)", {35.0, 0.9}, "lk", [](P p) { AlbersEqualArea t(6378137.0, 1 / 298.257223563, 30.0, 50.0, 1.0); t.SetScale(p[0], p[1]); },
      [](P p) { return EX(std::fabs(p[0]) < 90 && okA(p[1]), xA(p[1])); });
  // ---- classes documented NOT to validate their real parameters
  add("LocalCartesian(lat0,lon0,h0)", {48.0, 2.0, 100.0}, "lrr", [](P p) { LocalCartesian l(p[0], p[1], p[2]); (void)l; }, [](P) { return 0; });
  add("LocalCartesian::Reset(lat0,lon0,h0)", {48.0, 2.0, 100.0}, "lrr", [](P p) { LocalCartesian l; l.Reset(p[0], p[1], p[2]); }, [](P) { return 0; });
  add("GeodesicLine(g,lat1,lon1,azi1)", {10.0, 20.0, 30.0}, "lrr", [](P p) { GeodesicLine l(Geodesic::WGS84(), p[0], p[1], p[2]); (void)l; }, [](P) { return 0; });
  add("GeodesicLineExact(g,lat1,lon1,azi1)", {10.0, 20.0, 30.0}, "lrr", [](P p) { GeodesicLineExact l(GeodesicExact::WGS84(), p[0], p[1], p[2]); (void)l; }, [](P) { return 0; });
  add("Geodesic::GenDirectLine", {10.0, 20.0, 30.0, 1e6}, "lrrr", [](P p) { GeodesicLine l = Geodesic::WGS84().GenDirectLine(p[0], p[1], p[2], false, p[3]); GeodesicLine m = Geodesic::WGS84().GenDirectLine(p[0], p[1], p[2], true, p[3]); (void)l; (void)m; }, [](P) { return 0; });
  add("Rhumb::Line(lat1,lon1,azi12)", {10.0, 20.0, 30.0}, "lrr", [](P p) { RhumbLine l = Rhumb::WGS84().Line(p[0], p[1], p[2]); (void)l; }, [](P) { return 0; });
  add("CassiniSoldner(lat0,lon0)", {10.0, 20.0}, "lr", [](P p) { CassiniSoldner c(p[0], p[1]); (void)c; }, [](P) { return 0; });
  add("CassiniSoldner::Reset(lat0,lon0)", {10.0, 20.0}, "lr", [](P p) { CassiniSoldner c; c.Reset(p[0], p[1]); }, [](P) { return 0; });
  add("Gnomonic/AzimuthalEquidistant(Geodesic(a,f))", {a0, f0}, "af", [](P p) { Geodesic g(p[0], p[1]); Gnomonic n(g); AzimuthalEquidistant z(g); CassiniSoldner c(g); PolygonArea q(g, true); (void)n; (void)z; (void)c; (void)q; }, ell);
  add("AuxAngle(y,x)", {0.5, 0.8}, "rr", [](P p) { AuxAngle z(p[0], p[1]); AuxAngle n = z.normalized(); (void)n; }, [](P) { return 0; });
  add("Accumulator(y)", {1.5}, "r", [](P p) { Accumulator<> s(p[0]); s += 1; (void)s(); }, [](P) { return 0; });
  // ---- EllipticFunction (NaN is accepted on purpose; see EllipticFunction.cpp)
  auto efx = [](P p) { if (p[0] > 1 || p[1] > 1) return 1; if (!std::isfinite(p[0]) || !std::isfinite(p[1])) return -1; return 0; };
  add("EllipticFunction(k2,alpha2)", {0.3, 0.2}, "ff", [](P p) { EllipticFunction e(p[0], p[1]); (void)e; }, efx);
  add("EllipticFunction::Reset(k2,alpha2)", {0.3, 0.2}, "ff", [](P p) { EllipticFunction e; e.Reset(p[0], p[1]); }, efx);
  auto efx4 = [](P p) { if (p[0] > 1 || p[1] > 1 || p[2] < 0 || p[3] < 0) return 1; for (int k = 0; k < 4; ++k) if (!std::isfinite(p[k])) return -1; return 0; };
  add("EllipticFunction(k2,alpha2,kp2,alphap2)", {0.3, 0.2, 0.7, 0.8}, "ffkk", [](P p) { EllipticFunction e(p[0], p[1], p[2], p[3]); (void)e; }, efx4);
  add("EllipticFunction::Reset(k2,alpha2,kp2,alphap2)", {0.3, 0.2, 0.7, 0.8}, "ffkk", [](P p) { EllipticFunction e; e.Reset(p[0], p[1], p[2], p[3]); }, efx4);
  // ---- spherical harmonics: (N) / (N, nmx, mmx) against vectors sized for N = 4
  add("SphericalHarmonic(C,S,N,a)", {4, 6.4e6}, "ir", [](P p) { SphericalHarmonic h(W().C, W().S, I(p[0]), p[1]); (void)h; },
      [](P p) { int N = I(p[0]); return (N >= -1 && N <= 4) ? 0 : 1; });
  add("SphericalHarmonic(C,S,N,nmx,mmx,a)", {4, 3, 2, 6.4e6}, "iiir", [](P p) { SphericalHarmonic h(W().C, W().S, I(p[0]), I(p[1]), I(p[2]), p[3]); (void)h; },
      [](P p) { long long N = (long long)p[0], n = (long long)p[1], m = (long long)p[2];
        bool valid = (N >= n && n >= m && m >= 0) || (n == -1 && m == -1 && N >= -1);
        if (!valid) return 1; return N <= 4 ? 0 : -1; });
  add("SphericalHarmonic1(C,S,N,C1,S1,N1,a)", {4, 2, 6.4e6}, "iir", [](P p) { SphericalHarmonic1 h(W().C, W().S, I(p[0]), W().C1, W().S1, I(p[1]), p[2]); (void)h; },
      [](P p) { int N = I(p[0]), N1 = I(p[1]); if (N < -1 || N1 < -1 || N > 4 || N1 > 2) return 1; return N1 <= N ? 0 : -1; });
  add("SphericalHarmonic1(C,S,N,nmx,mmx,C1,S1,N1,nmx1,mmx1,a)", {4, 3, 2, 2, 2, 1, 6.4e6}, "iiiiiir",
      [](P p) { SphericalHarmonic1 h(W().C, W().S, I(p[0]), I(p[1]), I(p[2]), W().C1, W().S1, I(p[3]), I(p[4]), I(p[5]), p[6]); (void)h; },
      [](P p) { bool typical = p[0] == 4 && p[1] == 3 && p[2] == 2 && p[3] == 2 && p[4] == 2 && p[5] == 1; return typical ? 0 : -1; });
  add("SphericalHarmonic2(C,S,N,C1,S1,N1,C2,S2,N2,a)", {4, 2, 2, 6.4e6}, "iiir", [](P p) { SphericalHarmonic2 h(W().C, W().S, I(p[0]), W().C1, W().S1, I(p[1]), W().C1, W().S1, I(p[2]), p[3]); (void)h; },
      [](P p) { int N = I(p[0]), N1 = I(p[1]), N2 = I(p[2]); if (N < -1 || N1 < -1 || N2 < -1 || N > 4 || N1 > 2 || N2 > 2) return 1; return (N1 <= N && N2 <= N) ? 0 : -1; });
  add("SphericalEngine::coeff(C,S,N,nmx,mmx)", {4, 4, 4}, "iii", [](P p) { SphericalEngine::coeff c(W().C, W().S, I(p[0]), I(p[1]), I(p[2])); (void)c; },
      [](P p) { long long N = (long long)p[0], n = (long long)p[1], m = (long long)p[2];
        bool valid = (N >= n && n >= m && m >= 0) || (n == -1 && m == -1 && N >= -1);
        if (!valid) return 1; return N <= 4 ? 0 : -1; });
  add("DST(N)", {8}, "i", [](P p) { DST d(I(p[0])); (void)d; }, [](P p) { return (p[0] >= 0 && p[0] <= 4096) ? 0 : -1; });
  add("DST::reset(N)", {8}, "i", [](P p) { DST d(4); d.reset(I(p[0])); }, [](P p) { return (p[0] >= 0 && p[0] <= 4096) ? 0 : -1; });
  add("NearestNeighbor(pts,dist,bucket)", {4}, "i", [](P p) { static const std::vector<NNPt> pts = nn_points(20); NNDist d{nullptr, 0}; NNTree t(pts, d, I(p[0])); (void)t; },
      [](P p) { return (p[0] >= 0 && p[0] <= 10) ? 0 : 1; });
  add("GeoCoords(lat,lon,zone)", {33.3, 44.4, -1}, "lri", [](P p) { GeoCoords g(p[0], p[1], I(p[2])); (void)g; },
      [](P p) { if (!(std::fabs(p[0]) <= 90) && !std::isnan(p[0])) return 1; int z = I(p[2]); if (z < -4 || z > 60) return 1;
        bool typical = p[0] == 33.3 && p[1] == 44.4 && z == -1; return typical ? 0 : -1; });
  return C;
}

struct CtorCase { int c, p; double v; };
inline std::vector<CtorCase>& ctor_cases() {
  static std::vector<CtorCase> L;
  if (L.empty())
    for (size_t c = 0; c < ctors().size(); ++c) {
      L.push_back({(int)c, -1, 0});
      for (size_t p = 0; p < ctors()[c].kinds.size(); ++p)
        for (double v : ctor_specials(ctors()[c].kinds[p])) L.push_back({(int)c, (int)p, v});
    }
  return L;
}
inline uint64_t ctor_matrix_size() { return ctor_cases().size(); }

inline void ctor_run(vh::Ctx& c, const Ctor& k, const double* p, bool judge, const std::string& cls) {
  int want = k.expect(p), got = 0; std::string what, type;
  hang::install(fileno(c.out), c.section, c.idx, c.seed); hang::g_site = k.name.c_str();
  try { k.make(p); }
  catch (const GeographicErr& x) { got = 1; what = x.what(); }
  catch (const std::bad_alloc&) { got = 2; }
  catch (const std::exception& x) { got = 3; what = x.what(); type = demangle(typeid(x).name()); }
  catch (...) { got = 3; type = "non-std"; }
  std::string args = "["; for (size_t i = 0; i < k.typ.size(); ++i) { if (i) args += ","; args += vh::jnum(p[i]); } args += "]";
  std::string hx; { char b[40]; for (size_t i = 0; i < k.typ.size(); ++i) { std::snprintf(b, sizeof b, "%a ", p[i]); hx += b; } }
  vh::J d; d.raw("params", args).str("hexparams", hx).str("what", what).i("expected", want).i("got", got);
  if (got == 3) {
    // KNOWN regime (DECISIONS.md): DST(N)/DST::reset(N) with 2*N not representable -> std::length_error; one key
    std::string mon = "exception:" + type + "@" + k.name;
    bool dst_huge = k.name.compare(0, 3, "DST") == 0 && type == "std::length_error" && !(p[0] >= 0 && p[0] < 1073741824.0);
    d.str("monitor", mon);
    c.viol(dst_huge ? "exception:std::length_error@DST(N-huge)" : mon, cls, d);
  }
  else if (judge && want % 10 == 1 && got != 1) c.viol("ctor:C13/illegal-parameter-accepted/" + k.name + (want == 11 ? "/opposite-poles" : ""), cls, d);
  else if (judge && want == 0 && got != 0) c.viol("ctor:C13/legal-parameter-rejected/" + k.name, cls, d);
  uint64_t h = vh::hstr(k.name.c_str()); for (size_t i = 0; i < k.typ.size(); ++i) h = vh::hmix(h, p[i]);
  c.count(cls + (want % 10 == 1 ? "/illegal" : want == 0 ? "/legal" : "/unspecified") + (got == 1 ? "->GeographicErr" : got == 0 ? "->ok" : got == 2 ? "->bad_alloc" : "->ILLEGAL"), h);
  if (c.only) std::fprintf(stderr, "%s params=%s expected=%d got=%d %s\n", k.name.c_str(), args.c_str(), want, got, what.c_str());
}
inline void ctor_matrix_case(vh::Ctx& c, uint64_t idx) {
  const CtorCase& cc = ctor_cases()[idx % ctor_cases().size()];
  const Ctor& k = ctors()[cc.c];
  double p[12]; for (size_t i = 0; i < k.typ.size(); ++i) p[i] = k.typ[i];
  if (cc.p >= 0) p[cc.p] = cc.v;
  ctor_run(c, k, p, true, "ctor/" + k.name);
}
inline void ctor_random_case(vh::Ctx& c, uint64_t) {
  const Ctor& k = ctors()[c.rng.below(ctors().size())];
  double p[12]; for (size_t i = 0; i < k.typ.size(); ++i) p[i] = k.typ[i];
  int n = 0;
  for (size_t i = 0; i < k.typ.size(); ++i) if (c.rng.coin(0.6)) { ++n;
    double v = c.rng.pick(ctor_specials(k.kinds[i]));
    if (k.kinds[i] != 'i' && c.rng.coin(0.3)) v = vh::ulps(v, c.rng.range(-2, 2));
    if (k.kinds[i] != 'i' && c.rng.coin(0.2)) v = k.typ[i] * c.rng.logu(1e-3, 1e3);
    p[i] = v; }
  // with several parameters off-nominal the expectation function still applies (it looks at
  // the whole parameter vector), but only "must throw" is judged
  int want = k.expect(p);
  ctor_run(c, k, p, want % 10 == 1, "ctor-random/" + k.name);
}

}  // namespace c13
