// libFuzzer target for C18: osgb decoder/encoder against the exact reference model
#define C18_SCHEME 3
#include "fuzz/C18_target.inc"
