// C13 (b) registry, part 2: projections, Geocentric/LocalCartesian, Ellipsoid, AuxLatitude,
// EllipticFunction, NormalGravity, azimuthal projections, Intersect, PolygonArea.
#pragma once
#include "fuzz/C13_numreg.hpp"

namespace c13 {

inline void register_part2() {
  typedef const double* A; typedef Outs& O;
  // ---------------- transverse Mercator
  reg("TransverseMercator::Forward", {LON, LAT, LON}, "rrrr", false, [](A a, O o) { W().tm[g_e].Forward(a[0], a[1], a[2], o.r[0], o.r[1], o.r[2], o.r[3]); });
  reg("TransverseMercator::Reverse", {LON, TMX, TMY}, "rrrr", false, [](A a, O o) { W().tm[g_e].Reverse(a[0], a[1], a[2], o.r[0], o.r[1], o.r[2], o.r[3]); });
  reg("TransverseMercatorExact::Forward", {LON, LAT, LON}, "rrrr", false, [](A a, O o) { W().tme[g_e].Forward(a[0], a[1], a[2], o.r[0], o.r[1], o.r[2], o.r[3]); });
  reg("TransverseMercatorExact::Reverse", {LON, TMX, TMY}, "rrrr", false, [](A a, O o) { W().tme[g_e].Reverse(a[0], a[1], a[2], o.r[0], o.r[1], o.r[2], o.r[3]); });
  reg("PolarStereographic::Forward(N)", {LAT, LON}, "rrrr", false, [](A a, O o) { W().ps[g_e].Forward(true, a[0], a[1], o.r[0], o.r[1], o.r[2], o.r[3]); });
  reg("PolarStereographic::Forward(S)", {LAT, LON}, "rrrr", false, [](A a, O o) { W().ps[g_e].Forward(false, a[0], a[1], o.r[0], o.r[1], o.r[2], o.r[3]); });
  reg("PolarStereographic::Reverse", {PSX, PSX}, "rrrr", false, [](A a, O o) { W().ps[g_e].Reverse(g_e != 1, a[0], a[1], o.r[0], o.r[1], o.r[2], o.r[3]); });
  reg("LambertConformalConic(1)::Forward", {LON, LAT, LON}, "rrrr", false, [](A a, O o) { W().lcc1[g_e].Forward(a[0], a[1], a[2], o.r[0], o.r[1], o.r[2], o.r[3]); });
  reg("LambertConformalConic(1)::Reverse", {LON, PSX, PSX}, "rrrr", false, [](A a, O o) { W().lcc1[g_e].Reverse(a[0], a[1], a[2], o.r[0], o.r[1], o.r[2], o.r[3]); });
  reg("LambertConformalConic(2)::Forward", {LON, LAT, LON}, "rrrr", false, [](A a, O o) { W().lcc2[g_e].Forward(a[0], a[1], a[2], o.r[0], o.r[1], o.r[2], o.r[3]); });
  reg("LambertConformalConic(2)::Reverse", {LON, PSX, PSX}, "rrrr", false, [](A a, O o) { W().lcc2[g_e].Reverse(a[0], a[1], a[2], o.r[0], o.r[1], o.r[2], o.r[3]); });
  reg("LambertConformalConic::Mercator::Forward", {LON, LAT, LON}, "rrrr", false, [](A a, O o) { LambertConformalConic::Mercator().Forward(a[0], a[1], a[2], o.r[0], o.r[1], o.r[2], o.r[3]); });
  reg("LambertConformalConic::Mercator::Reverse", {LON, TMY, TMY}, "rrrr", false, [](A a, O o) { LambertConformalConic::Mercator().Reverse(a[0], a[1], a[2], o.r[0], o.r[1], o.r[2], o.r[3]); });
  reg("AlbersEqualArea(1)::Forward", {LON, LAT, LON}, "rrrr", false, [](A a, O o) { W().alb1[g_e].Forward(a[0], a[1], a[2], o.r[0], o.r[1], o.r[2], o.r[3]); });
  reg("AlbersEqualArea(1)::Reverse", {LON, PSX, PSX}, "rrrr", false, [](A a, O o) { W().alb1[g_e].Reverse(a[0], a[1], a[2], o.r[0], o.r[1], o.r[2], o.r[3]); });
  reg("AlbersEqualArea(2)::Forward", {LON, LAT, LON}, "rrrr", false, [](A a, O o) { W().alb2[g_e].Forward(a[0], a[1], a[2], o.r[0], o.r[1], o.r[2], o.r[3]); });
  reg("AlbersEqualArea(2)::Reverse", {LON, PSX, PSX}, "rrrr", false, [](A a, O o) { W().alb2[g_e].Reverse(a[0], a[1], a[2], o.r[0], o.r[1], o.r[2], o.r[3]); });
  reg("AlbersEqualArea::CylindricalEqualArea::Forward", {LON, LAT, LON}, "rrrr", false, [](A a, O o) { AlbersEqualArea::CylindricalEqualArea().Forward(a[0], a[1], a[2], o.r[0], o.r[1], o.r[2], o.r[3]); });
  reg("AlbersEqualArea::AzimuthalEqualAreaNorth::Reverse", {LON, PSX, PSX}, "rrrr", false, [](A a, O o) { AlbersEqualArea::AzimuthalEqualAreaNorth().Reverse(a[0], a[1], a[2], o.r[0], o.r[1], o.r[2], o.r[3]); });
  reg("AlbersEqualArea::AzimuthalEqualAreaSouth::Forward", {LON, LAT, LON}, "rrrr", false, [](A a, O o) { AlbersEqualArea::AzimuthalEqualAreaSouth().Forward(a[0], a[1], a[2], o.r[0], o.r[1], o.r[2], o.r[3]); });
  // ---------------- azimuthal / Cassini
  reg("Gnomonic::Forward", {LAT, LON, LAT, LON}, "rrrr", false, [](A a, O o) { W().gn[g_e].Forward(a[0], a[1], a[2], a[3], o.r[0], o.r[1], o.r[2], o.r[3]); });
  reg("Gnomonic::Reverse", {LAT, LON, PSX, PSX}, "rrrr", false, [](A a, O o) { W().gn[g_e].Reverse(a[0], a[1], a[2], a[3], o.r[0], o.r[1], o.r[2], o.r[3]); });
  reg("AzimuthalEquidistant::Forward", {LAT, LON, LAT, LON}, "rrrr", false, [](A a, O o) { W().ae[g_e].Forward(a[0], a[1], a[2], a[3], o.r[0], o.r[1], o.r[2], o.r[3]); });
  reg("AzimuthalEquidistant::Reverse", {LAT, LON, TMY, TMY}, "rrrr", false, [](A a, O o) { W().ae[g_e].Reverse(a[0], a[1], a[2], a[3], o.r[0], o.r[1], o.r[2], o.r[3]); });
  reg("CassiniSoldner::Forward", {LAT, LON}, "rrrr", false, [](A a, O o) { W().cs[g_e].Forward(a[0], a[1], o.r[0], o.r[1], o.r[2], o.r[3]); });
  reg("CassiniSoldner::Reverse", {TMX, TMY}, "rrrr", false, [](A a, O o) { W().cs[g_e].Reverse(a[0], a[1], o.r[0], o.r[1], o.r[2], o.r[3]); });
  reg("CassiniSoldner::Reset+Forward", {LAT, LON, LAT, LON}, "rrrrrr", false, [](A a, O o) { CassiniSoldner c(a[0], a[1], W().g[g_e]); o.r[4] = c.LatitudeOrigin(); o.r[5] = c.LongitudeOrigin(); c.Forward(a[2], a[3], o.r[0], o.r[1], o.r[2], o.r[3]); });
  // ---------------- Geocentric / LocalCartesian
  reg("Geocentric::Forward", {LAT, LON, HGT}, "rrr", false, [](A a, O o) { W().gc[g_e].Forward(a[0], a[1], a[2], o.r[0], o.r[1], o.r[2]); });
  reg("Geocentric::Forward(M)", {LAT, LON, HGT}, "rrrrrrrrrrrr", false, [](A a, O o) { std::vector<real> M(9); W().gc[g_e].Forward(a[0], a[1], a[2], o.r[0], o.r[1], o.r[2], M); for (int k = 0; k < 9; ++k) o.r[3 + k] = M[k]; });
  reg("Geocentric::Reverse", {CART, CART, CART}, "rrr", false, [](A a, O o) { W().gc[g_e].Reverse(a[0], a[1], a[2], o.r[0], o.r[1], o.r[2]); });
  reg("Geocentric::Reverse(M)", {CART, CART, CART}, "rrrrrrrrrrrr", false, [](A a, O o) { std::vector<real> M(9); W().gc[g_e].Reverse(a[0], a[1], a[2], o.r[0], o.r[1], o.r[2], M); for (int k = 0; k < 9; ++k) o.r[3 + k] = M[k]; });
  reg("LocalCartesian::Forward", {LAT, LON, HGT}, "rrr", false, [](A a, O o) { W().lc[g_e].Forward(a[0], a[1], a[2], o.r[0], o.r[1], o.r[2]); });
  reg("LocalCartesian::Reverse", {CART, CART, HGT}, "rrr", false, [](A a, O o) { W().lc[g_e].Reverse(a[0], a[1], a[2], o.r[0], o.r[1], o.r[2]); });
  reg("LocalCartesian::Reset+Forward", {LAT, LON, HGT, LAT, LON, HGT}, "rrrrrr", false, [](A a, O o) { LocalCartesian l(a[0], a[1], a[2], W().gc[g_e]); o.r[3] = l.LatitudeOrigin(); o.r[4] = l.LongitudeOrigin(); o.r[5] = l.HeightOrigin(); l.Forward(a[3], a[4], a[5], o.r[0], o.r[1], o.r[2]); });
  // ---------------- Ellipsoid
#define C13_ELL1(fn, kind) reg("Ellipsoid::" #fn, {kind}, "r", false, [](A a, O o) { o.r[0] = W().el[g_e].fn(a[0]); })
  C13_ELL1(ParametricLatitude, LAT); C13_ELL1(InverseParametricLatitude, LAT); C13_ELL1(GeocentricLatitude, LAT); C13_ELL1(InverseGeocentricLatitude, LAT);
  C13_ELL1(RectifyingLatitude, LAT); C13_ELL1(InverseRectifyingLatitude, LAT); C13_ELL1(AuthalicLatitude, LAT); C13_ELL1(InverseAuthalicLatitude, LAT);
  C13_ELL1(ConformalLatitude, LAT); C13_ELL1(InverseConformalLatitude, LAT); C13_ELL1(IsometricLatitude, LAT); C13_ELL1(InverseIsometricLatitude, ARC);
  C13_ELL1(CircleRadius, LAT); C13_ELL1(CircleHeight, LAT); C13_ELL1(MeridianDistance, LAT); C13_ELL1(MeridionalCurvatureRadius, LAT); C13_ELL1(TransverseCurvatureRadius, LAT);
#undef C13_ELL1
  reg("Ellipsoid::NormalCurvatureRadius", {LAT, AZI}, "r", false, [](A a, O o) { o.r[0] = W().el[g_e].NormalCurvatureRadius(a[0], a[1]); });
  reg("Ellipsoid::inspectors", {}, "rrrrrrrrrrr", false, [](A, O o) { const Ellipsoid& e = W().el[g_e]; o.r[0] = e.EquatorialRadius(); o.r[1] = e.PolarRadius(); o.r[2] = e.QuarterMeridian(); o.r[3] = e.Area(); o.r[4] = e.Volume();
    o.r[5] = e.Flattening(); o.r[6] = e.SecondFlattening(); o.r[7] = e.ThirdFlattening(); o.r[8] = e.EccentricitySq(); o.r[9] = e.SecondEccentricitySq(); o.r[10] = e.ThirdEccentricitySq(); });
#define C13_ELLS(fn) reg("Ellipsoid::" #fn, {FLAT}, "r", false, [](A a, O o) { o.r[0] = Ellipsoid::fn(a[0]); })
  C13_ELLS(SecondFlatteningToFlattening); C13_ELLS(FlatteningToSecondFlattening); C13_ELLS(ThirdFlatteningToFlattening); C13_ELLS(FlatteningToThirdFlattening);
  C13_ELLS(EccentricitySqToFlattening); C13_ELLS(FlatteningToEccentricitySq); C13_ELLS(SecondEccentricitySqToFlattening); C13_ELLS(FlatteningToSecondEccentricitySq);
  C13_ELLS(ThirdEccentricitySqToFlattening); C13_ELLS(FlatteningToThirdEccentricitySq);
#undef C13_ELLS
  // ---------------- AuxLatitude / AuxAngle
  reg("AuxLatitude::Convert(real)", {AUXI, AUXI, LAT}, "r", false, [](A a, O o) { o.r[0] = W().aux[g_e].Convert(I(a[0]), I(a[1]), a[2], false); });
  reg("AuxLatitude::Convert(real,exact)", {AUXI, AUXI, LAT}, "r", false, [](A a, O o) { o.r[0] = W().aux[g_e].Convert(I(a[0]), I(a[1]), a[2], true); });
  reg("AuxLatitude::Convert(AuxAngle)", {AUXI, AUXI, GEN, POS}, "rr", false, [](A a, O o) { AuxAngle r = W().aux[g_e].Convert(I(a[0]), I(a[1]), AuxAngle(a[2], a[3]), false); o.r[0] = r.tan(); o.r[1] = r.degrees(); });
  reg("AuxLatitude::ToAuxiliary", {AUXI, GEN, POS}, "rrr", false, [](A a, O o) { real d; AuxAngle r = W().aux[g_e].ToAuxiliary(I(a[0]), AuxAngle(a[1], a[2]), &d); o.r[0] = r.tan(); o.r[1] = r.degrees(); o.r[2] = d; });
  reg("AuxLatitude::FromAuxiliary", {AUXI, GEN, POS}, "rr", false, [](A a, O o) { AuxAngle r = W().aux[g_e].FromAuxiliary(I(a[0]), AuxAngle(a[1], a[2])); o.r[0] = r.tan(); o.r[1] = r.degrees(); });
  reg("AuxLatitude::radii", {}, "rrrr", false, [](A, O o) { o.r[0] = W().aux[g_e].RectifyingRadius(false); o.r[1] = W().aux[g_e].RectifyingRadius(true); o.r[2] = W().aux[g_e].AuthalicRadiusSquared(false); o.r[3] = W().aux[g_e].AuthalicRadiusSquared(true); });
  reg("AuxLatitude::Clenshaw", {UNIT, UNIT, UNIT, UNIT}, "rr", false, [](A a, O o) { real c[3] = {a[2], a[3], 0.001}; o.r[0] = AuxLatitude::Clenshaw(true, a[0], a[1], c, 3); o.r[1] = AuxLatitude::Clenshaw(false, a[0], a[1], c, 3); });
  reg("AuxAngle::accessors", {GEN, GEN}, "rrrrrrr", false, [](A a, O o) { AuxAngle z(a[0], a[1]); o.r[0] = z.degrees(); o.r[1] = z.radians(); o.r[2] = z.lam(); o.r[3] = z.lamd(); o.r[4] = z.tan(); AuxAngle n = z.normalized(); o.r[5] = n.y(); o.r[6] = n.x(); });
  reg("AuxAngle::degrees", {AZI}, "rr", false, [](A a, O o) { AuxAngle z = AuxAngle::degrees(a[0]); o.r[0] = z.y(); o.r[1] = z.x(); });
  reg("AuxAngle::radians", {PHI}, "rr", false, [](A a, O o) { AuxAngle z = AuxAngle::radians(a[0]); o.r[0] = z.y(); o.r[1] = z.x(); });
  reg("AuxAngle::lam", {GEN}, "rrrr", false, [](A a, O o) { AuxAngle z = AuxAngle::lam(a[0]); o.r[0] = z.y(); o.r[1] = z.x(); AuxAngle y = AuxAngle::lamd(a[0] * 10); o.r[2] = y.y(); o.r[3] = y.x(); });
  // ---------------- EllipticFunction
#define C13_EF1(fn, kind) reg("EllipticFunction::" #fn "(phi)", {kind}, "r", false, [](A a, O o) { o.r[0] = W().ef[g_e].fn(a[0]); })
  C13_EF1(F, PHI); C13_EF1(E, PHI); C13_EF1(Ed, AZI); C13_EF1(Einv, GEN); C13_EF1(Pi, PHI); C13_EF1(D, PHI); C13_EF1(G, PHI); C13_EF1(H, PHI); C13_EF1(am, GEN);
#undef C13_EF1
#define C13_EF3(fn) reg("EllipticFunction::" #fn "(sn,cn,dn)", {UNIT, UNIT, POS}, "r", false, [](A a, O o) { o.r[0] = W().ef[g_e].fn(a[0], a[1], a[2]); })
  C13_EF3(F); C13_EF3(E); C13_EF3(Pi); C13_EF3(D); C13_EF3(G); C13_EF3(H); C13_EF3(deltaF); C13_EF3(deltaE); C13_EF3(deltaPi); C13_EF3(deltaD); C13_EF3(deltaG); C13_EF3(deltaH);
#undef C13_EF3
  reg("EllipticFunction::deltaEinv", {UNIT, UNIT}, "r", false, [](A a, O o) { o.r[0] = W().ef[g_e].deltaEinv(a[0], a[1]); });
  reg("EllipticFunction::Delta", {UNIT, UNIT}, "r", false, [](A a, O o) { o.r[0] = W().ef[g_e].Delta(a[0], a[1]); });
  reg("EllipticFunction::sncndn", {GEN}, "rrrr", false, [](A a, O o) { W().ef[g_e].sncndn(a[0], o.r[0], o.r[1], o.r[2]); o.r[3] = W().ef[g_e].am(a[0], o.r[0], o.r[1], o.r[2]); });
  reg("EllipticFunction::complete(k2,alpha2)", {K2, K2}, "rrrrrrrrrr", true, [](A a, O o) { EllipticFunction e(a[0], a[1]); o.r[0] = e.K(); o.r[1] = e.E(); o.r[2] = e.D(); o.r[3] = e.KE(); o.r[4] = e.Pi(); o.r[5] = e.G(); o.r[6] = e.H(); o.r[7] = e.k2(); o.r[8] = e.kp2(); o.r[9] = e.alphap2(); });
  reg("EllipticFunction::RF3", {POS, POS, POS}, "r", false, [](A a, O o) { o.r[0] = EllipticFunction::RF(a[0], a[1], a[2]); });
  reg("EllipticFunction::RF2", {POS, POS}, "r", false, [](A a, O o) { o.r[0] = EllipticFunction::RF(a[0], a[1]); });
  reg("EllipticFunction::RC", {POS, POS}, "r", false, [](A a, O o) { o.r[0] = EllipticFunction::RC(a[0], a[1]); });
  reg("EllipticFunction::RG3", {POS, POS, POS}, "r", false, [](A a, O o) { o.r[0] = EllipticFunction::RG(a[0], a[1], a[2]); });
  reg("EllipticFunction::RG2", {POS, POS}, "r", false, [](A a, O o) { o.r[0] = EllipticFunction::RG(a[0], a[1]); });
  reg("EllipticFunction::RJ", {POS, POS, POS, POS}, "r", false, [](A a, O o) { o.r[0] = EllipticFunction::RJ(a[0], a[1], a[2], a[3]); });
  reg("EllipticFunction::RD", {POS, POS, POS}, "r", false, [](A a, O o) { o.r[0] = EllipticFunction::RD(a[0], a[1], a[2]); });
  // ---------------- NormalGravity
  reg("NormalGravity::SurfaceGravity", {LAT}, "r", false, [](A a, O o) { o.r[0] = W().ng[g_e].SurfaceGravity(a[0]); });
  reg("NormalGravity::Gravity", {LAT, HGT}, "rrr", false, [](A a, O o) { o.r[0] = W().ng[g_e].Gravity(a[0], a[1], o.r[1], o.r[2]); });
  reg("NormalGravity::U", {CART, CART, CART}, "rrrr", false, [](A a, O o) { o.r[0] = W().ng[g_e].U(a[0], a[1], a[2], o.r[1], o.r[2], o.r[3]); });
  reg("NormalGravity::V0", {CART, CART, CART}, "rrrr", false, [](A a, O o) { o.r[0] = W().ng[g_e].V0(a[0], a[1], a[2], o.r[1], o.r[2], o.r[3]); });
  reg("NormalGravity::Phi", {CART, CART}, "rrr", false, [](A a, O o) { o.r[0] = W().ng[g_e].Phi(a[0], a[1], o.r[1], o.r[2]); });
  reg("NormalGravity::inspectors", {DEG}, "rrrrrrrrr", false, [](A a, O o) { const NormalGravity& n = W().ng[g_e]; o.r[0] = n.DynamicalFormFactor(std::min(I(a[0]), 1000000));   // O(n) loop: n is capped, 2^31 trips are slow, not a hang o.r[1] = n.EquatorialGravity(); o.r[2] = n.PolarGravity(); o.r[3] = n.GravityFlattening();
    o.r[4] = n.SurfacePotential(); o.r[5] = n.MassConstant(); o.r[6] = n.AngularVelocity(); o.r[7] = n.Flattening(); o.r[8] = n.EquatorialRadius(); });
  reg("NormalGravity::J2ToFlattening", {CART, POS, UNIT, UNIT}, "r", false, [](A a, O o) { o.r[0] = NormalGravity::J2ToFlattening(a[0], 3.986e14 * a[1], 7.29e-5 * a[2], 1.08e-3 * (1 + a[3])); });
  reg("NormalGravity::FlatteningToJ2", {CART, POS, UNIT, FLAT}, "r", false, [](A a, O o) { o.r[0] = NormalGravity::FlatteningToJ2(a[0], 3.986e14 * a[1], 7.29e-5 * a[2], a[3]); });
  // ---------------- Intersect
  reg("Intersect::Closest", {LAT, LON, AZI, LAT, LON, AZI}, "rri", false, [](A a, O o) { Intersect::Point p = W().xs[g_e].Closest(a[0], a[1], a[2], a[3], a[4], a[5], Intersect::Point(0, 0), &o.i[0]); o.r[0] = p.first; o.r[1] = p.second; });
  reg("Intersect::Segment", {LAT, LON, LAT, LON, LAT, LON, LAT, LON}, "rrii", false, [](A a, O o) { Intersect::Point p = W().xs[g_e].Segment(a[0], a[1], a[2], a[3], a[4], a[5], a[6], a[7], o.i[0], &o.i[1]); o.r[0] = p.first; o.r[1] = p.second; });
  reg("Intersect::Next", {LAT, LON, AZI, AZI}, "rri", false, [](A a, O o) { Intersect::Point p = W().xs[g_e].Next(a[0], a[1], a[2], a[3], &o.i[0]); o.r[0] = p.first; o.r[1] = p.second; });
  reg("Intersect::All", {LAT, LON, AZI, LAT, LON, AZI}, "rri", true, [](A a, O o) { std::vector<int> c; std::vector<Intersect::Point> v = W().xs[g_e].All(a[0], a[1], a[2], a[3], a[4], a[5], 2.5e7, c);
    o.i[0] = (int)v.size(); o.r[0] = v.empty() ? Math::NaN() : v[0].first; o.r[1] = v.empty() ? Math::NaN() : v[0].second; });
  // documented to throw for an absurd maxdist; the work for a legal maxdist grows as maxdist^2, so the hang probe
  // is confined to <= 25 circumferences (1e9 m, ~0.15 s): values between that and 1e15 m are mapped to 1e9 m
  reg("Intersect::All(maxdist)", {DIST}, "i", true, [](A a, O o) { double m = std::fabs(a[0]); if (m > 1e9 && m < 1e15) m = 1e9;
    std::vector<int> c; std::vector<Intersect::Point> v = W().xs[g_e].All(10, 20, 30, 11, 21, 100, m, c); o.i[0] = (int)v.size(); });
  // NaN policy for the same argument (added after seeded change C13-r5s1): a NaN maxdist is not an "absurd" one -- the call must return
  // (an empty list on the unchanged tree) without any exception; finite values are confined to <= 1e9 m, infinities mapped to 1e7 m
  reg("Intersect::All(maxdist-nan-policy)", {DIST}, "i", false, [](A a, O o) { double m = a[0]; if (!std::isnan(m) && !(std::fabs(m) <= 1e9)) m = 1e7;
    std::vector<int> c; std::vector<Intersect::Point> v = W().xs[g_e].All(10, 20, 30, 11, 21, 100, m, c), v2 = W().xs[g_e].All(10, 20, 30, 11, 21, 100, m);
    o.i[0] = (int)(v.size() + v2.size()); });
  // ---------------- PolygonArea (history of 3 fixed points + the variable ones)
  reg("PolygonArea::AddPoint+Compute", {LAT, LON}, "rri", false, [](A a, O o) { PolygonArea p(W().g[g_e]); p.AddPoint(10, 10); p.AddPoint(a[0], a[1]); p.AddPoint(-20, 80); o.i[0] = (int)p.Compute(false, true, o.r[0], o.r[1]); });
  reg("PolygonArea::AddEdge+Compute", {AZI, DIST}, "rri", false, [](A a, O o) { PolygonArea p(W().g[g_e]); p.AddPoint(10, 10); p.AddEdge(a[0], a[1]); p.AddPoint(-20, 80); o.i[0] = (int)p.Compute(true, false, o.r[0], o.r[1]); });
  reg("PolygonArea::TestPoint", {LAT, LON}, "rri", false, [](A a, O o) { PolygonArea p(W().g[g_e]); p.AddPoint(10, 10); p.AddPoint(40, 100); p.AddPoint(-20, 80); o.i[0] = (int)p.TestPoint(a[0], a[1], false, true, o.r[0], o.r[1]); });
  reg("PolygonArea::TestEdge", {AZI, DIST}, "rri", false, [](A a, O o) { PolygonArea p(W().g[g_e]); p.AddPoint(10, 10); p.AddPoint(40, 100); p.AddPoint(-20, 80); o.i[0] = (int)p.TestEdge(a[0], a[1], false, true, o.r[0], o.r[1]); });
  reg("PolygonAreaExact::AddPoint+Compute", {LAT, LON}, "rri", false, [](A a, O o) { PolygonAreaExact p(W().ge[g_e]); p.AddPoint(10, 10); p.AddPoint(a[0], a[1]); p.AddPoint(-20, 80); o.i[0] = (int)p.Compute(false, true, o.r[0], o.r[1]); });
  reg("PolygonAreaRhumb::AddPoint+Compute", {LAT, LON}, "rri", false, [](A a, O o) { PolygonAreaRhumb p(W().rh[g_e]); p.AddPoint(10, 10); p.AddPoint(a[0], a[1]); p.AddPoint(-20, 80); o.i[0] = (int)p.Compute(false, true, o.r[0], o.r[1]); });
  reg("PolygonArea(polyline)::AddPoint+Compute", {LAT, LON}, "ri", false, [](A a, O o) { real area; PolygonArea p(W().g[g_e], true); p.AddPoint(10, 10); p.AddPoint(a[0], a[1]); p.AddPoint(-20, 80); o.i[0] = (int)p.Compute(false, true, o.r[0], area); });
}

}  // namespace c13
