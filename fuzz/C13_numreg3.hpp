// C13 (b) registry, part 3: Math, spherical harmonics and data-file models, UTM/UPS, MGRS,
// grid codes (numeric sides), OSGB, DMS, GeoCoords, DST, Accumulator, Utility dates.
#pragma once
#include "fuzz/C13_numreg.hpp"

namespace c13 {

inline void register_part3() {
  typedef const double* A; typedef Outs& O;
  // ---------------- Math
#define C13_M1(fn, kind) reg("Math::" #fn, {kind}, "r", false, [](A a, O o) { o.r[0] = Math::fn(a[0]); })
  C13_M1(AngNormalize, AZI); C13_M1(LatFix, LAT); C13_M1(AngRound, GEN); C13_M1(sind, AZI); C13_M1(cosd, AZI); C13_M1(tand, AZI); C13_M1(atand, GEN); C13_M1(sq, GEN);
#undef C13_M1
  reg("Math::sincosd", {AZI}, "rr", false, [](A a, O o) { Math::sincosd(a[0], o.r[0], o.r[1]); });
  reg("Math::sincosde", {AZI, UNIT}, "rr", false, [](A a, O o) { Math::sincosde(a[0], a[1] * 1e-10, o.r[0], o.r[1]); });
  reg("Math::atan2d", {GEN, GEN}, "r", false, [](A a, O o) { o.r[0] = Math::atan2d(a[0], a[1]); });
  reg("Math::AngDiff", {AZI, AZI}, "rrr", false, [](A a, O o) { o.r[0] = Math::AngDiff(a[0], a[1], o.r[1]); o.r[2] = Math::AngDiff(a[0], a[1]); });
  reg("Math::sum", {GEN, GEN}, "rr", false, [](A a, O o) { o.r[0] = Math::sum(a[0], a[1], o.r[1]); });
  reg("Math::norm", {GEN, GEN}, "rr", false, [](A a, O o) { real x = a[0], y = a[1]; Math::norm(x, y); o.r[0] = x; o.r[1] = y; });
  reg("Math::hypot3", {GEN, GEN, GEN}, "r", false, [](A a, O o) { o.r[0] = Math::hypot3(a[0], a[1], a[2]); });
  reg("Math::polyval", {GEN, GEN, GEN, UNIT}, "r", false, [](A a, O o) { real p[3] = {a[0], a[1], a[2]}; o.r[0] = Math::polyval(2, p, a[3]); });
  reg("Math::eatanhe", {UNIT, ES}, "r", false, [](A a, O o) { o.r[0] = Math::eatanhe(a[0], a[1]); });
  reg("Math::taupf", {TAU, ES}, "r", false, [](A a, O o) { o.r[0] = Math::taupf(a[0], a[1]); });
  reg("Math::tauf", {TAU, ES}, "r", false, [](A a, O o) { o.r[0] = Math::tauf(a[0], a[1]); });
  reg("Math::float", {AZI}, "rrrrr", false, [](A a, O o) { float s, c; Math::sincosd((float)a[0], s, c); o.r[0] = s; o.r[1] = c; o.r[2] = Math::AngNormalize((float)a[0]); o.r[3] = Math::tand((float)a[0]); o.r[4] = Math::AngRound((float)a[0]); });
  reg("Math::long double", {AZI}, "rrrr", false, [](A a, O o) { long double s, c; Math::sincosd((long double)a[0], s, c); o.r[0] = (double)s; o.r[1] = (double)c; o.r[2] = (double)Math::AngNormalize((long double)a[0]); o.r[3] = (double)Math::atan2d((long double)a[0], 1.0L); });
  // ---------------- Accumulator
  reg("Accumulator", {GEN, GEN, GEN}, "rrr", false, [](A a, O o) { Accumulator<> s(a[0]); s += a[1]; s -= a[2]; o.r[0] = s(); o.r[1] = s(a[1]); s *= a[2]; s.remainder(360.0); o.r[2] = s(); });
  // ---------------- spherical harmonics
  reg("SphericalHarmonic::operator()", {CART, CART, CART}, "rrrrr", false, [](A a, O o) { o.r[0] = (*W().sh)(a[0], a[1], a[2]); o.r[1] = (*W().sh)(a[0], a[1], a[2], o.r[2], o.r[3], o.r[4]); });
  reg("SphericalHarmonic1::operator()", {UNIT, CART, CART, CART}, "rrrrr", false, [](A a, O o) { o.r[0] = (*W().sh1)(a[0], a[1], a[2], a[3]); o.r[1] = (*W().sh1)(a[0], a[1], a[2], a[3], o.r[2], o.r[3], o.r[4]); });
  reg("SphericalHarmonic2::operator()", {UNIT, UNIT, CART, CART, CART}, "rrrrr", false, [](A a, O o) { o.r[0] = (*W().sh2)(a[0], a[1], a[2], a[3], a[4]); o.r[1] = (*W().sh2)(a[0], a[1], a[2], a[3], a[4], o.r[2], o.r[3], o.r[4]); });
  reg("SphericalHarmonic::Circle", {CART, CART, LON}, "rrrrr", false, [](A a, O o) { CircularEngine c = W().sh->Circle(std::fabs(a[0]), a[1], true); o.r[0] = c(a[2]); o.r[1] = c(a[2], o.r[2], o.r[3], o.r[4]); });
  reg("SphericalHarmonic1::Circle", {UNIT, CART, CART, LON}, "rr", false, [](A a, O o) { CircularEngine c = W().sh1->Circle(a[0], std::fabs(a[1]), a[2], false); o.r[0] = c(a[3]); o.r[1] = c(std::sin(a[3]), std::cos(a[3])); });
  reg("SphericalHarmonic2::Circle", {UNIT, UNIT, CART, CART, LON}, "r", false, [](A a, O o) { CircularEngine c = W().sh2->Circle(a[0], a[1], std::fabs(a[2]), a[3], false); o.r[0] = c(a[4]); });
  reg("DST::eval/integral", {UNIT, UNIT, UNIT, UNIT}, "rrr", false, [](A a, O o) { o.r[0] = DST::eval(a[0], a[1], W().dstF.data(), 8); o.r[1] = DST::integral(a[0], a[1], W().dstF.data(), 8); o.r[2] = DST::integral(a[0], a[1], a[2], a[3], W().dstF.data(), 8); });
  // ---------------- data-file models (valid synthetic files)
  reg("MagneticModel::operator()", {TIME, LAT, LON, HGT}, "rrrrrr", false, [](A a, O o) { (*W().mag)(a[0], a[1], a[2], a[3], o.r[0], o.r[1], o.r[2], o.r[3], o.r[4], o.r[5]); });
  reg("MagneticModel::operator()(field)", {TIME, LAT, LON, HGT}, "rrr", false, [](A a, O o) { (*W().mag)(a[0], a[1], a[2], a[3], o.r[0], o.r[1], o.r[2]); });
  reg("MagneticModel::FieldGeocentric", {TIME, CART, CART, CART}, "rrrrrr", false, [](A a, O o) { W().mag->FieldGeocentric(a[0], a[1], a[2], a[3], o.r[0], o.r[1], o.r[2], o.r[3], o.r[4], o.r[5]); });
  reg("MagneticModel::Circle", {TIME, LAT, HGT, LON}, "rrrrrr", false, [](A a, O o) { MagneticCircle c = W().mag->Circle(a[0], a[1], a[2]); c(a[3], o.r[0], o.r[1], o.r[2], o.r[3], o.r[4], o.r[5]); });
  reg("MagneticModel::FieldComponents", {GEN, GEN, GEN, GEN, GEN, GEN}, "rrrrrrrr", false, [](A a, O o) { MagneticModel::FieldComponents(a[0], a[1], a[2], a[3], a[4], a[5], o.r[0], o.r[1], o.r[2], o.r[3], o.r[4], o.r[5], o.r[6], o.r[7]); });
  reg("GravityModel::Gravity", {LAT, LON, HGT}, "rrrr", false, [](A a, O o) { o.r[0] = W().grav->Gravity(a[0], a[1], a[2], o.r[1], o.r[2], o.r[3]); });
  reg("GravityModel::Disturbance", {LAT, LON, HGT}, "rrrr", false, [](A a, O o) { o.r[0] = W().grav->Disturbance(a[0], a[1], a[2], o.r[1], o.r[2], o.r[3]); });
  reg("GravityModel::GeoidHeight", {LAT, LON}, "r", false, [](A a, O o) { o.r[0] = W().grav->GeoidHeight(a[0], a[1]); });
  reg("GravityModel::SphericalAnomaly", {LAT, LON, HGT}, "rrr", false, [](A a, O o) { W().grav->SphericalAnomaly(a[0], a[1], a[2], o.r[0], o.r[1], o.r[2]); });
  reg("GravityModel::W", {CART, CART, CART}, "rrrr", false, [](A a, O o) { o.r[0] = W().grav->W(a[0], a[1], a[2], o.r[1], o.r[2], o.r[3]); });
  reg("GravityModel::V", {CART, CART, CART}, "rrrr", false, [](A a, O o) { o.r[0] = W().grav->V(a[0], a[1], a[2], o.r[1], o.r[2], o.r[3]); });
  reg("GravityModel::T", {CART, CART, CART}, "rrrrr", false, [](A a, O o) { o.r[0] = W().grav->T(a[0], a[1], a[2], o.r[1], o.r[2], o.r[3]); o.r[4] = W().grav->T(a[0], a[1], a[2]); });
  reg("GravityModel::U", {CART, CART, CART}, "rrrr", false, [](A a, O o) { o.r[0] = W().grav->U(a[0], a[1], a[2], o.r[1], o.r[2], o.r[3]); });
  reg("GravityModel::Phi", {CART, CART}, "rrr", false, [](A a, O o) { o.r[0] = W().grav->Phi(a[0], a[1], o.r[1], o.r[2]); });
  reg("GravityModel::Circle", {LAT, HGT, LON}, "rrrrrrrr", false, [](A a, O o) { GravityCircle c = W().grav->Circle(a[0], a[1]); o.r[0] = c.Gravity(a[2], o.r[1], o.r[2], o.r[3]); o.r[4] = c.GeoidHeight(a[2]); c.SphericalAnomaly(a[2], o.r[5], o.r[6], o.r[7]); });
  reg("Geoid::operator()", {LAT, LON}, "rr", true, [](A a, O o) { o.r[0] = (*W().geoid)(a[0], a[1]); o.r[1] = (*W().geoidc)(a[0], a[1]); });
  reg("Geoid::ConvertHeight", {LAT, LON, HGT}, "rr", true, [](A a, O o) { o.r[0] = W().geoid->ConvertHeight(a[0], a[1], a[2], Geoid::GEOIDTOELLIPSOID); o.r[1] = W().geoidc->ConvertHeight(a[0], a[1], a[2], Geoid::ELLIPSOIDTOGEOID); });
  reg("Geoid::CacheArea", {LAT, LON, LAT, LON}, "xxxx", true, [](A a, O o) { W().geoidc->CacheArea(a[0], a[1], a[2], a[3]); o.r[0] = W().geoidc->CacheWest(); o.r[1] = W().geoidc->CacheEast(); o.r[2] = W().geoidc->CacheNorth(); o.r[3] = W().geoidc->CacheSouth(); W().geoidc->CacheClear(); });
  // ---------------- UTM/UPS, MGRS (validating)
  reg("UTMUPS::StandardZone", {LAT, LON, SETZ}, "z", true, [](A a, O o) { o.i[0] = UTMUPS::StandardZone(a[0], a[1], I(a[2])); });
  reg("UTMUPS::Forward", {LAT, LON, SETZ}, "zbrrrr", true, [](A a, O o) { UTMUPS::Forward(a[0], a[1], o.i[0], o.b[0], o.r[0], o.r[1], o.r[2], o.r[3], I(a[2]), false); });
  reg("UTMUPS::Forward(mgrslimits)", {LAT, LON}, "zbrr", true, [](A a, O o) { UTMUPS::Forward(a[0] * 0.9, a[1], o.i[0], o.b[0], o.r[0], o.r[1], UTMUPS::STANDARD, true); });
  reg("UTMUPS::Reverse(utm)", {ZONE, UTMX, UTMY}, "rrrr", true, [](A a, O o) { UTMUPS::Reverse(I(a[0]), true, a[1], a[2], o.r[0], o.r[1], o.r[2], o.r[3], false); });
  reg("UTMUPS::Reverse(ups)", {UPSX, UPSX}, "rrrr", true, [](A a, O o) { UTMUPS::Reverse(0, false, a[0], a[1], o.r[0], o.r[1], o.r[2], o.r[3], true); });
  reg("UTMUPS::Transfer", {ZONE, UTMX, UTMY}, "rrz", true, [](A a, O o) { int z = I(a[0]); UTMUPS::Transfer(z, true, a[1], a[2], z < 60 ? z + 1 : 59, true, o.r[0], o.r[1], o.i[0]); });
  reg("UTMUPS::Transfer(hemisphere)", {ZONE, UTMX, UTMY}, "rrz", true, [](A a, O o) { int z = I(a[0]); UTMUPS::Transfer(z, true, a[1], a[2], z, false, o.r[0], o.r[1], o.i[0]); });
  reg("UTMUPS::EncodeZone", {ZONE}, "nn", true, [](A a, O o) { std::string s0 = UTMUPS::EncodeZone(I(a[0]), true, true), s1 = UTMUPS::EncodeZone(I(a[0]), false, false); o.s[0] = s0; o.s[1] = s1; });
  reg("UTMUPS::EPSG", {EPSG, ZONE}, "ibi", true, [](A a, O o) { UTMUPS::DecodeEPSG(I(a[0]), o.i[0], o.b[0]); o.i[1] = UTMUPS::EncodeEPSG(I(a[1]), true); });
  reg("MGRS::Forward", {ZONE, UTMX, UTMY, MPREC}, "s", true, [](A a, O o) { MGRS::Forward(I(a[0]), true, a[1], a[2], I(a[3]), o.s[0]); });
  reg("MGRS::Forward(ups)", {UPSX, UPSX, MPREC}, "s", true, [](A a, O o) { MGRS::Forward(0, g_e != 1, a[0], a[1], I(a[2]), o.s[0]); });
  reg("MGRS::Forward(lat)", {LAT, LON, MPREC}, "s", true, [](A a, O o) { int z; bool n; real x, y; UTMUPS::Forward(a[0] * 0.88, a[1], z, n, x, y); MGRS::Forward(z, n, x, y, a[0] * 0.88, I(a[2]), o.s[0]); });
  reg("MGRS::Forward(lat arg)", {LAT}, "s", true, [](A a, O o) { MGRS::Forward(38, true, 444500.0, 3684500.0, a[0], 3, o.s[0]); });
  // ---------------- grid codes
  reg("Geohash::Forward", {LAT, LON, GLEN}, "s", true, [](A a, O o) { Geohash::Forward(a[0], a[1], I(a[2]), o.s[0]); });
  reg("Geohash::resolutions", {GLEN, POS, POS}, "rrii", false, [](A a, O o) { o.r[0] = Geohash::LatitudeResolution(I(a[0])); o.r[1] = Geohash::LongitudeResolution(I(a[0])); o.i[0] = Geohash::GeohashLength(a[1] * 1e-3); o.i[1] = Geohash::GeohashLength(a[1] * 1e-3, a[2] * 1e-3); });
  reg("Geohash::DecimalPrecision", {GLEN}, "i", false, [](A a, O o) { o.i[0] = Geohash::DecimalPrecision(I(a[0])); });
  reg("GARS::Forward", {LAT, LON, GPREC}, "s", true, [](A a, O o) { GARS::Forward(a[0], a[1], I(a[2]), o.s[0]); });
  reg("GARS::Resolution", {GPREC, POS}, "ri", false, [](A a, O o) { o.r[0] = GARS::Resolution(I(a[0])); o.i[0] = GARS::Precision(a[1] * 1e-2); });
  reg("Georef::Forward", {LAT, LON, MPREC}, "s", true, [](A a, O o) { Georef::Forward(a[0], a[1], I(a[2]), o.s[0]); });
  reg("Georef::Resolution", {MPREC, POS}, "ri", false, [](A a, O o) { o.r[0] = Georef::Resolution(I(a[0])); o.i[0] = Georef::Precision(a[1] * 1e-3); });
  reg("OSGB::Forward", {LAT, LON}, "rrrr", false, [](A a, O o) { OSGB::Forward(50 + a[0] / 20, a[1] / 40, o.r[0], o.r[1], o.r[2], o.r[3]); });
  reg("OSGB::Forward(raw)", {LAT, LON}, "rr", false, [](A a, O o) { OSGB::Forward(a[0], a[1], o.r[0], o.r[1]); });
  reg("OSGB::Reverse", {UTMX, UTMX}, "rrrr", false, [](A a, O o) { OSGB::Reverse(a[0], a[1], o.r[0], o.r[1], o.r[2], o.r[3]); });
  reg("OSGB::GridReference", {UTMX, UTMX, MPREC}, "s", true, [](A a, O o) { OSGB::GridReference(a[0], a[1], I(a[2]), o.s[0]); });
  // ---------------- DMS numeric sides
  reg("DMS::Encode(prec,ind)", {AZI, PREC}, "dddd", true, [](A a, O o) { std::string s0 = DMS::Encode(a[0], (unsigned)I(a[1]), DMS::NONE), s1 = DMS::Encode(a[0] / 2, (unsigned)I(a[1]), DMS::LATITUDE), s2 = DMS::Encode(a[0], (unsigned)I(a[1]), DMS::LONGITUDE, ':'), s3 = DMS::Encode(a[0], (unsigned)I(a[1]), DMS::AZIMUTH); o.s[0] = s0; o.s[1] = s1; o.s[2] = s2; o.s[3] = s3; });
  reg("DMS::Encode(trailing)", {AZI, PREC}, "ddd", true, [](A a, O o) { std::string s0 = DMS::Encode(a[0], DMS::DEGREE, (unsigned)I(a[1]), DMS::NUMBER), s1 = DMS::Encode(a[0], DMS::MINUTE, (unsigned)I(a[1]), DMS::LONGITUDE), s2 = DMS::Encode(a[0] / 2, DMS::SECOND, (unsigned)I(a[1]), DMS::LATITUDE, ':'); o.s[0] = s0; o.s[1] = s1; o.s[2] = s2; });
  reg("DMS::Encode(d,m,s)", {AZI}, "rrrrr", false, [](A a, O o) { DMS::Encode(a[0], o.r[0], o.r[1]); DMS::Encode(a[0], o.r[2], o.r[3], o.r[4]); });
  reg("DMS::Decode(d,m,s)", {AZI, GEN, GEN}, "r", false, [](A a, O o) { o.r[0] = DMS::Decode(a[0], a[1], a[2]); });
  // ---------------- GeoCoords numeric constructors and representations
  reg("GeoCoords(lat,lon)", {LAT, LON, SETZ}, "rrrrrrzssdd", true, [](A a, O o) { GeoCoords g(a[0] * 0.93, a[1], I(a[2]));
    std::string m = g.MGRSRepresentation(2), u = g.UTMUPSRepresentation(1), ge = g.GeoRepresentation(3), d = g.DMSRepresentation(1);
    o.r[0] = g.Latitude(); o.r[1] = g.Longitude(); o.r[2] = g.Easting(); o.r[3] = g.Northing(); o.r[4] = g.Convergence(); o.r[5] = g.Scale();
    o.i[0] = g.Zone(); o.s[0] = m; o.s[1] = u; o.s[2] = ge; o.s[3] = d; });
  reg("GeoCoords(zone,x,y)", {ZONE, UTMX, UTMY}, "rrrrs", true, [](A a, O o) { GeoCoords g(I(a[0]), true, a[1], a[2]); std::string m = g.AltMGRSRepresentation(1); o.r[0] = g.Latitude(); o.r[1] = g.Longitude(); o.r[2] = g.Convergence(); o.r[3] = g.Scale(); o.s[0] = m; });
  reg("GeoCoords::representations(prec)", {PREC}, "nnnn", true, [](A a, O o) { GeoCoords g(33.3, 44.4); int p = I(a[0]); std::string s0 = g.GeoRepresentation(p), s1 = g.DMSRepresentation(p), s2 = g.MGRSRepresentation(p), s3 = g.UTMUPSRepresentation(p); o.s[0] = s0; o.s[1] = s1; o.s[2] = s2; o.s[3] = s3; });
  reg("GeoCoords::SetAltZone", {ZONE}, "zrr", true, [](A a, O o) { GeoCoords g(33.3, 44.4); g.SetAltZone(((I(a[0]) % 3) + 3) % 3 + 37); o.i[0] = g.AltZone(); o.r[0] = g.AltEasting(); o.r[1] = g.AltNorthing(); });
  // ---------------- Utility dates
  reg("Utility::day", {YEAR, MON, DAY}, "iiii", false, [](A a, O o) { int y = I(a[0]), m = I(a[1]), d = I(a[2]); o.i[0] = Utility::day(y, m, d); Utility::date(o.i[0], o.i[1], o.i[2], o.i[3]); });
  reg("Utility::day(check)", {YEAR, MON, DAY}, "ii", true, [](A a, O o) { int y = I(a[0]), m = I(a[1]), d = I(a[2]); int t = Utility::day(y, m, d, true); o.i[0] = t; o.i[1] = Utility::dow(y, m, d); });
  reg("Utility::str", {GEN}, "nn", false, [](A a, O o) { o.s[0] = Utility::str(a[0], 6); o.s[1] = Utility::str(a[0]); });
}

}  // namespace c13
#include "fuzz/C13_numreg2.hpp"
