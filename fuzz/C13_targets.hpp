// C13: "one hostile input -> library calls under the exception / sentinel / law monitors".
// The same target functions are driven by libFuzzer (fuzz/C13_fuzz.cpp), by the
// deterministic fault enumeration and the directed / grammar string workloads
// (harness/C13_files.cpp, ASan+UBSan and -O2 builds) and by the valgrind replay.
//
// Monitors inside every target:
//   * exception monitor: only normal return, GeographicErr and std::bad_alloc are legal;
//     anything else -> viol("exception:<type>@<site>")
//   * sentinel monitor: outputs are pre-filled with sentinels; after a throw they must be
//     bit-identical -> viol("sentinel:C13/throw-modified-output/<site>")
//   * small laws that need no oracle (alphabet of accepted grid codes, lookup index law,
//     range of accepted latitudes/zones, sizes of coefficient vectors, tree-search budget)
#pragma once
#include <GeographicLib/Constants.hpp>
#include <GeographicLib/DMS.hpp>
#include <GeographicLib/GARS.hpp>
#include <GeographicLib/GeoCoords.hpp>
#include <GeographicLib/Geohash.hpp>
#include <GeographicLib/Geoid.hpp>
#include <GeographicLib/Georef.hpp>
#include <GeographicLib/GravityCircle.hpp>
#include <GeographicLib/GravityModel.hpp>
#include <GeographicLib/MGRS.hpp>
#include <GeographicLib/MagneticCircle.hpp>
#include <GeographicLib/MagneticModel.hpp>
#include <GeographicLib/NearestNeighbor.hpp>
#include <GeographicLib/OSGB.hpp>
#include <GeographicLib/SphericalHarmonic.hpp>
#include <GeographicLib/UTMUPS.hpp>
#include <GeographicLib/Utility.hpp>

#include <cctype>
#include <csignal>
#include <cxxabi.h>
#include <fcntl.h>
#include <fstream>
#include <sstream>
#include <sys/stat.h>
#include <sys/types.h>
#include <typeinfo>
#include <unistd.h>

#include "fuzz/C13_seedfiles.hpp"

namespace c13 {
using namespace GeographicLib;
typedef Math::real real;

struct Env {
  std::string dir;                    // scratch directory for file targets (under /dev/shm)
  uint64_t accepted = 0, rejected = 0, badalloc = 0, calls = 0;
  int last = 0;                       // outcome of the last guarded call: 0 ok, 1 GeographicErr, 2 bad_alloc, 3 illegal
  virtual void viol(const std::string& key, const std::string& detail) = 0;
  virtual void event(const std::string&) {}
  virtual ~Env() {}
};

inline std::string demangle(const char* n) {
  int st = 0; char* d = abi::__cxa_demangle(n, nullptr, nullptr, &st);
  std::string s = (st == 0 && d) ? d : n; std::free(d); return s;
}

// ---- per-site hang keys: the harness watchdog (SIGVTALRM) reports "hang@<section>"; C13 wants
// the library entry point in the key, so C13 harnesses install this handler (same record format
// and exit code as harness/common.hpp) and name the site before every library call.
namespace hang {
  static const char* volatile g_site = "?";
  static int g_fd = -1; static const char* volatile g_section = ""; static volatile uint64_t g_idx = 0; static uint64_t g_seed = 0;
  static bool g_installed = false;
  inline void on_alarm(int) {
    char b[512];
    int n = std::snprintf(b, sizeof b,
      "{\"t\":\"viol\",\"key\":\"hang:C13/%s\",\"class\":\"watchdog\",\"section\":\"%s\",\"idx\":%llu,\"seed\":%llu,\"detail\":{\"what\":\"per-case CPU limit exceeded inside %s\"}}\n",
      g_site, g_section, (unsigned long long)g_idx, (unsigned long long)g_seed, g_site);
    if (g_fd >= 0) { ssize_t r = ::write(g_fd, b, n); (void)r; }
    _exit(97);
  }
  inline void install(int fd, const char* section, uint64_t idx, uint64_t seed) {
    g_fd = fd; g_section = section; g_idx = idx; g_seed = seed;
    if (!g_installed) { std::signal(SIGVTALRM, on_alarm); g_installed = true; }
  }
}

// run f under the exception monitor; returns 0 ok / 1 GeographicErr / 2 bad_alloc / 3 illegal
template <class F> inline int guard(Env& e, const char* site, F&& f) {
  ++e.calls; hang::g_site = site;
  try { f(); ++e.accepted; return e.last = 0; }
  catch (const GeographicErr&) { ++e.rejected; return e.last = 1; }
  catch (const std::bad_alloc&) { ++e.badalloc; return e.last = 2; }
  catch (const std::exception& x) {
    e.viol(std::string("exception:") + demangle(typeid(x).name()) + "@" + site, x.what()); return e.last = 3; }
  catch (...) { e.viol(std::string("exception:non-std@") + site, ""); return e.last = 3; }
}

// ---- sentinels
inline double dsent(int k) { uint64_t u = 0x7ff4dead00000000ULL | (uint32_t)(0xc13000 + k); double d; std::memcpy(&d, &u, 8); return d; }
inline bool dsame(double a, double b) { return std::memcmp(&a, &b, 8) == 0; }
static const int ISENT = 0x5a5a5a5a;
static const char* const SSENT = "<sentinel>";
struct Outs {
  double r[12]; int i[4]; bool b[2]; std::string s[4]; bool b0;
  explicit Outs(bool bfill = false) : b0(bfill) { reset(); }
  void reset() { for (int k = 0; k < 12; ++k) r[k] = dsent(k); for (int k = 0; k < 4; ++k) i[k] = ISENT + k;
    b[0] = b[1] = b0; for (int k = 0; k < 4; ++k) s[k] = SSENT; }
  bool untouched() const {
    for (int k = 0; k < 12; ++k) if (!dsame(r[k], dsent(k))) return false;
    for (int k = 0; k < 4; ++k) if (i[k] != ISENT + k) return false;
    if (b[0] != b0 || b[1] != b0) return false;
    for (int k = 0; k < 4; ++k) if (s[k] != SSENT) return false;
    return true; }
};
// guarded call with throw-leaves-outputs monitor
template <class F> inline int gcall(Env& e, const char* site, Outs& o, F&& f) {
  o.reset();
  int rc = guard(e, site, f);
  if (rc != 0 && !o.untouched())
    e.viol(std::string("sentinel:C13/throw-modified-output/") + site, "an output argument was written before the exception");
  return rc;
}

inline std::string hexs(const std::string& s, size_t maxn = 96) {
  static const char* h = "0123456789abcdef"; std::string o;
  for (size_t i = 0; i < s.size() && i < maxn; ++i) { o += h[(unsigned char)s[i] >> 4]; o += h[s[i] & 15]; }
  if (s.size() > maxn) o += "..."; return o;
}
inline bool all_alnum(const std::string& s) { for (unsigned char c : s) if (!std::isalnum(c)) return false; return true; }
inline bool upper_prefix(const std::string& s, const char* p) {
  size_t n = std::strlen(p); if (s.size() < n) return false;
  for (size_t i = 0; i < n; ++i) if (std::toupper((unsigned char)s[i]) != p[i]) return false; return true; }

// split raw bytes in two strings at the first '\n' (or 0xff)
inline void split2(const std::string& s, std::string& a, std::string& b) {
  size_t p = s.find_first_of(std::string("\n\xff", 2));
  if (p == std::string::npos) { a = s; b.clear(); } else { a = s.substr(0, p); b = s.substr(p + 1); }
}

// =====================================================================  string targets
inline void t_dms_decode(const uint8_t* d, size_t n, Env& e) {
  std::string s((const char*)d, n);
  DMS::flag pre = DMS::flag(n % 5), ind = pre; double v = dsent(0);
  int rc = guard(e, "DMS::Decode", [&] { v = DMS::Decode(s, ind); });
  if (rc != 0 && ind != pre) e.viol("sentinel:C13/throw-modified-output/DMS::Decode", hexs(s));
  if (rc == 0 && !(ind == DMS::NONE || ind == DMS::LATITUDE || ind == DMS::LONGITUDE))
    e.viol("law:C13/DMS::Decode/flag-out-of-range", hexs(s));
  guard(e, "DMS::DecodeAngle", [&] { v = DMS::DecodeAngle(s); });
  guard(e, "DMS::DecodeAzimuth", [&] { v = DMS::DecodeAzimuth(s);
    if (std::fabs(v) > 180) e.viol("law:C13/DMS::DecodeAzimuth/out-of-range", hexs(s)); });
}
inline void t_dms_latlon(const uint8_t* d, size_t n, Env& e) {
  std::string s((const char*)d, n), a, b; split2(s, a, b);
  Outs o;
  for (int lf = 0; lf < 2; ++lf) {
    int rc = gcall(e, "DMS::DecodeLatLon", o, [&] { DMS::DecodeLatLon(a, b, o.r[0], o.r[1], lf != 0); });
    if (rc == 0 && (std::fabs(o.r[0]) > 90))
      e.viol("law:C13/DMS::DecodeLatLon/accepted-latitude-out-of-range", hexs(s));
  }
}
inline void geocoords_use(const GeoCoords& g, Env& e, int p) {
  std::string r;
  guard(e, "GeoCoords::GeoRepresentation", [&] { r = g.GeoRepresentation(p, (p & 1) != 0); });
  guard(e, "GeoCoords::DMSRepresentation", [&] { r = g.DMSRepresentation(p, (p & 1) != 0, (p & 2) ? ':' : '\0'); });
  guard(e, "GeoCoords::MGRSRepresentation", [&] { r = g.MGRSRepresentation(p); });
  guard(e, "GeoCoords::UTMUPSRepresentation", [&] { r = g.UTMUPSRepresentation(p, (p & 1) != 0); });
  guard(e, "GeoCoords::UTMUPSRepresentation(northp)", [&] { r = g.UTMUPSRepresentation((p & 2) != 0, p, (p & 1) != 0); });
  guard(e, "GeoCoords::SetAltZone", [&] { g.SetAltZone(p % 62 - 1); });
  guard(e, "GeoCoords::AltMGRSRepresentation", [&] { r = g.AltMGRSRepresentation(p); });
  guard(e, "GeoCoords::AltUTMUPSRepresentation", [&] { r = g.AltUTMUPSRepresentation(p, true); });
}
inline void t_geocoords(const uint8_t* d, size_t n, Env& e) {
  std::string s((const char*)d, n);
  for (int cfg = 0; cfg < 4; ++cfg) {
    GeoCoords g(33.3, 44.4);
    double lat0 = g.Latitude(), lon0 = g.Longitude(), x0 = g.Easting(), y0 = g.Northing(); int z0 = g.Zone();
    int rc = guard(e, "GeoCoords::Reset(string)", [&] { g.Reset(s, (cfg & 1) != 0, (cfg & 2) != 0); });
    if (rc != 0) {
      // documented for constructors only through the general rule; recorded as a law of C13(c)
      if (!(dsame(g.Latitude(), lat0) && dsame(g.Longitude(), lon0) && dsame(g.Easting(), x0) &&
            dsame(g.Northing(), y0) && g.Zone() == z0))
        e.event("note/GeoCoords::Reset-throw-changed-object");
      continue;
    }
    if (std::fabs(g.Latitude()) > 90) e.viol("law:C13/GeoCoords/accepted-latitude-out-of-range", hexs(s));
    if (!(g.Zone() == UTMUPS::INVALID || (g.Zone() >= 0 && g.Zone() <= 60)))
      e.viol("law:C13/GeoCoords/zone-out-of-range", hexs(s));
    static const int precs[] = {-3, 0, 5, 11, 20};
    geocoords_use(g, e, precs[(n + cfg) % 5]);
  }
}
inline void t_mgrs_reverse(const uint8_t* d, size_t n, Env& e) {
  std::string s((const char*)d, n);
  Outs o(n & 1);
  for (int cp = 0; cp < 2; ++cp) {
    int rc = gcall(e, "MGRS::Reverse", o, [&] { MGRS::Reverse(s, o.i[0], o.b[0], o.r[0], o.r[1], o.i[1], cp != 0); });
    if (rc == 0) {
      int zone = o.i[0], prec = o.i[1]; bool northp = o.b[0]; double x = o.r[0], y = o.r[1];
      if (!upper_prefix(s, "INV") && !all_alnum(s)) e.viol("law:C13/MGRS::Reverse/accepted-non-alphanumeric", hexs(s));
      if (!(zone == UTMUPS::INVALID || (zone >= 0 && zone <= 60)) || !(prec >= -2 && prec <= 11))
        e.viol("law:C13/MGRS::Reverse/zone-or-prec-out-of-range", hexs(s));
      if (zone == UTMUPS::INVALID) { if (!upper_prefix(s, "INV")) e.viol("law:C13/MGRS::Reverse/invalid-zone-from-non-INV", hexs(s)); }
      else if (!(std::isfinite(x) && std::isfinite(y))) e.viol("law:C13/MGRS::Reverse/non-finite-position", hexs(s));
      std::string m = SSENT;
      if (zone != UTMUPS::INVALID)
        guard(e, "MGRS::Forward(after Reverse)", [&] { MGRS::Forward(zone, northp, x, y, prec, m); });
    }
  }
  Outs q;
  int rc = gcall(e, "MGRS::Decode", q, [&] { MGRS::Decode(s, q.s[0], q.s[1], q.s[2], q.s[3]); });
  if (rc == 0 && q.s[0].size() + q.s[1].size() + q.s[2].size() + q.s[3].size() > s.size() + 8)
    e.viol("law:C13/MGRS::Decode/pieces-longer-than-input", hexs(s));
}
inline void t_utmups_zone(const uint8_t* d, size_t n, Env& e) {
  std::string s((const char*)d, n);
  Outs o(n & 1);
  int rc = gcall(e, "UTMUPS::DecodeZone", o, [&] { UTMUPS::DecodeZone(s, o.i[0], o.b[0]); });
  if (rc == 0) {
    int zone = o.i[0]; bool northp = o.b[0];
    if (!(zone == UTMUPS::INVALID || (zone >= 0 && zone <= 60))) e.viol("law:C13/UTMUPS::DecodeZone/zone-out-of-range", hexs(s));
    std::string z;
    int r2 = guard(e, "UTMUPS::EncodeZone", [&] { z = UTMUPS::EncodeZone(zone, northp, (n & 2) != 0); });
    if (r2 != 0) e.viol("law:C13/UTMUPS::EncodeZone/rejects-decoded-zone", hexs(s));
    guard(e, "UTMUPS::EncodeEPSG", [&] { (void)UTMUPS::EncodeEPSG(zone, northp); });
  }
  // numeric sides driven by the same bytes
  if (n >= 4) {
    int v; std::memcpy(&v, d, 4);
    Outs p(n & 1);
    gcall(e, "UTMUPS::DecodeEPSG", p, [&] { UTMUPS::DecodeEPSG(v, p.i[0], p.b[0]); });
    if (e.last == 0 && !(p.i[0] == UTMUPS::INVALID || (p.i[0] >= 0 && p.i[0] <= 60)))
      e.viol("law:C13/UTMUPS::DecodeEPSG/zone-out-of-range", std::to_string(v));
    std::string z;
    guard(e, "UTMUPS::EncodeZone(int)", [&] { z = UTMUPS::EncodeZone(v, (n & 1) != 0); });
    guard(e, "UTMUPS::EncodeEPSG(int)", [&] { (void)UTMUPS::EncodeEPSG(v, (n & 1) != 0); });
  }
}
// Documented leniencies (not judged here): Geohash considers only the first 18 characters and
// also maps "nan..." to NaN; OSGB maps "IN..." to NaN.
template <class Cls> inline void code_reverse(const std::string& s, Env& e, const char* rsite, const char* fsite,
                                               const char* lawpfx, int kind /*0 geohash 1 gars 2 georef*/) {
  Outs o;
  for (int cp = 0; cp < 2; ++cp) {
    int rc = gcall(e, rsite, o, [&] { Cls::Reverse(s, o.r[0], o.r[1], o.i[0], cp != 0); });
    if (rc != 0) continue;
    double lat = o.r[0], lon = o.r[1]; int prec = o.i[0];
    if (std::isnan(lat) || std::isnan(lon)) {
      if (!(upper_prefix(s, "INV") || (kind == 0 && upper_prefix(s, "NAN")))) e.viol(std::string(lawpfx) + "/nan-from-non-INV", hexs(s));
      continue;
    }
    std::string judged = s;
    if (kind == 0 && judged.size() > 18) judged.resize(18);
    if (!all_alnum(judged)) e.viol(std::string(lawpfx) + "/accepted-non-alphanumeric", hexs(s));
    if (!(std::fabs(lat) <= 90 && std::fabs(lon) <= 180)) e.viol(std::string(lawpfx) + "/position-out-of-range", hexs(s));
    std::string c = SSENT;
    int r2 = guard(e, fsite, [&] { Cls::Forward(lat, lon, prec, c); });
    if (r2 == 1) e.viol(std::string(lawpfx) + "/Forward-rejects-Reverse-output", hexs(s));
  }
}
inline void t_geohash(const uint8_t* d, size_t n, Env& e) {
  code_reverse<Geohash>(std::string((const char*)d, n), e, "Geohash::Reverse", "Geohash::Forward", "law:C13/Geohash::Reverse", 0); }
inline void t_gars(const uint8_t* d, size_t n, Env& e) {
  code_reverse<GARS>(std::string((const char*)d, n), e, "GARS::Reverse", "GARS::Forward", "law:C13/GARS::Reverse", 1); }
inline void t_georef(const uint8_t* d, size_t n, Env& e) {
  code_reverse<Georef>(std::string((const char*)d, n), e, "Georef::Reverse", "Georef::Forward", "law:C13/Georef::Reverse", 2); }
inline void t_osgb(const uint8_t* d, size_t n, Env& e) {
  std::string s((const char*)d, n);
  Outs o;
  for (int cp = 0; cp < 2; ++cp) {
    int rc = gcall(e, "OSGB::GridReference(string)", o, [&] { OSGB::GridReference(s, o.r[0], o.r[1], o.i[0], cp != 0); });
    if (rc != 0) continue;
    double x = o.r[0], y = o.r[1]; int prec = o.i[0];
    if (std::isnan(x) || std::isnan(y)) { if (!upper_prefix(s, "IN")) e.viol("law:C13/OSGB::GridReference/nan-from-non-INV", hexs(s)); continue; }
    for (unsigned char c : s) if (!(std::isalnum(c) || std::isspace(c))) { e.viol("law:C13/OSGB::GridReference/accepted-bad-character", hexs(s)); break; }
    std::string g = SSENT;
    int r2 = guard(e, "OSGB::GridReference(numeric)", [&] { OSGB::GridReference(x, y, prec, g); });
    if (r2 == 1) e.viol("law:C13/OSGB::GridReference/Forward-rejects-Reverse-output", hexs(s));
  }
}
inline void t_utility(const uint8_t* d, size_t n, Env& e) {
  std::string s((const char*)d, n);
  guard(e, "Utility::val<int>", [&] { (void)Utility::val<int>(s); });
  guard(e, "Utility::val<unsigned>", [&] { (void)Utility::val<unsigned>(s); });
  guard(e, "Utility::val<long long>", [&] { (void)Utility::val<long long>(s); });
  guard(e, "Utility::val<double>", [&] { (void)Utility::val<double>(s); });
  guard(e, "Utility::val<float>", [&] { (void)Utility::val<float>(s); });
  guard(e, "Utility::val<long double>", [&] { (void)Utility::val<long double>(s); });
  guard(e, "Utility::val<bool>", [&] { (void)Utility::val<bool>(s); });
  guard(e, "Utility::val<string>", [&] { (void)Utility::val<std::string>(s); });
  guard(e, "Utility::fract<double>", [&] { (void)Utility::fract<double>(s); });
  guard(e, "Utility::nummatch<double>", [&] { double v = Utility::nummatch<double>(s);
    if (!(v == 0 || std::isnan(v) || std::isinf(v))) e.viol("law:C13/Utility::nummatch/finite-nonzero", hexs(s)); });
  { Outs o;
    gcall(e, "Utility::date(string)", o, [&] { Utility::date(s, o.i[0], o.i[1], o.i[2]); }); }
  guard(e, "Utility::fractionalyear<double>", [&] { (void)Utility::fractionalyear<double>(s); });
  { std::string t;
    guard(e, "Utility::trim", [&] { t = Utility::trim(s); });
    if (e.last == 0) {
      bool ok = t.size() <= s.size() && s.find(t) != std::string::npos &&
        (t.empty() || (!std::isspace((unsigned char)t[0]) && !std::isspace((unsigned char)t[t.size() - 1])));
      if (!ok) e.viol("law:C13/Utility::trim", hexs(s));
    } }
  { Outs o;
    gcall(e, "Utility::ParseLine", o, [&] { (void)Utility::ParseLine(s, o.s[0], o.s[1]); });
    Outs p; char eq = n > 0 ? (char)d[0] : '=', cm = n > 1 ? (char)d[1] : '#';
    gcall(e, "Utility::ParseLine(delims)", p, [&] { (void)Utility::ParseLine(s, p.s[0], p.s[1], eq, cm); });
    Outs q;
    gcall(e, "Utility::ParseLine(=,#)", q, [&] { (void)Utility::ParseLine(s, q.s[0], q.s[1], '=', '#'); }); }
  // lookup: r == -1 or s[r] == toupper(c) with r inside the searched string
  if (n >= 1) {
    char c = (char)d[0]; std::string hay((const char*)d + 1, n - 1);
    int r = -2;
    guard(e, "Utility::lookup(string)", [&] { r = Utility::lookup(hay, c); });
    if (e.last == 0 && !(r == -1 || (r >= 0 && r < (int)hay.size() && hay[r] == (char)std::toupper((unsigned char)c))))
      e.viol("law:C13/Utility::lookup(string)/bad-index", hexs(s));
    static const char* const alph[] = {"ABCDEFGHJKLMNPQRSTUVWXYZ", "0123456789", "0123456789bcdefghjkmnpqrstuvwxyz", ""};
    for (const char* a : alph) {
      r = -2;
      guard(e, "Utility::lookup(char*)", [&] { r = Utility::lookup(a, c); });
      if (e.last == 0 && !(r == -1 || (r >= 0 && r < (int)std::strlen(a) && a[r] == (char)std::toupper((unsigned char)c))))
        e.viol("law:C13/Utility::lookup(char*)/index-not-inside-alphabet", hexs(s.substr(0, 1)));
    }
  }
}
// fract<int> kept apart so that its findings have their own key
inline void t_fract_int(const uint8_t* d, size_t n, Env& e) {
  std::string s((const char*)d, n);
  guard(e, "Utility::fract<int>", [&] { (void)Utility::fract<int>(s); });
}

// =====================================================================  file targets
inline bool write_file(const std::string& p, const std::string& bytes) {
  int fd = ::open(p.c_str(), O_WRONLY | O_CREAT | O_TRUNC, 0644);
  if (fd < 0) return false;
  size_t off = 0;
  while (off < bytes.size()) { ssize_t k = ::write(fd, bytes.data() + off, bytes.size() - off); if (k <= 0) { ::close(fd); return false; } off += (size_t)k; }
  ::close(fd); return true;
}

static const double kProbe[][2] = {
  {0, 0}, {90, 0}, {-90, 0}, {89.999, 179.999}, {-89.999, -180}, {45, 359.9}, {-45, -0.01}, {12.5, 180},
  {0.001, -179.999}, {67.5, 22.5}, {-22.4, 315}, {90, 360}, {-90, -360}, {33, 720.5}, {-1e-9, 1e-9}, {84, -3}};

inline void geoid_use(const Geoid& g, Env& e, int cfg) {
  double h = 0;
  auto heights = [&](const char* site) {
    for (auto& p : kProbe) guard(e, site, [&] { h = g(p[0], p[1]); });
  };
  heights("Geoid::operator()");
  guard(e, "Geoid::ConvertHeight", [&] { h = g.ConvertHeight(10, 20, 30, Geoid::ELLIPSOIDTOGEOID); });
  guard(e, "Geoid::CacheArea", [&] { g.CacheArea(-40 + cfg, 170, 50, -170 + cfg); });
  heights("Geoid::operator()(area-cache)");
  guard(e, "Geoid::CacheArea(polar)", [&] { g.CacheArea(80, 0, 90, 360); });
  heights("Geoid::operator()(polar-cache)");
  guard(e, "Geoid::CacheAll", [&] { g.CacheAll(); });
  heights("Geoid::operator()(all-cache)");
  guard(e, "Geoid::CacheArea(south>north)", [&] { g.CacheArea(10, 0, -10, 5); });
  guard(e, "Geoid::CacheClear", [&] { g.CacheClear(); });
  heights("Geoid::operator()(after-clear)");
  guard(e, "Geoid::inspectors", [&] {
    volatile double s = g.Offset() + g.Scale() + g.MaxError() + g.RMSError() + g.CacheWest() + g.CacheEast() +
      g.CacheNorth() + g.CacheSouth() + g.EquatorialRadius() + g.Flattening(); (void)s;
    volatile size_t l = g.Description().size() + g.DateTime().size() + g.GeoidFile().size() + g.GeoidName().size() +
      g.GeoidDirectory().size() + g.Interpolation().size(); (void)l; });
}
inline void t_geoid(const uint8_t* d, size_t n, Env& e) {
  std::string path = e.dir + "/g.pgm";
  if (!write_file(path, std::string((const char*)d, n))) { e.event("harness/write-failed"); return; }
  bool any = false;
  for (int cfg = 0; cfg < 4; ++cfg) {
    bool cubic = cfg & 1, ts = cfg & 2;
    int rc = guard(e, "Geoid::Geoid", [&] { Geoid g("g", e.dir, cubic, ts); any = true; geoid_use(g, e, cfg); });
    (void)rc;
  }
  e.event(any ? "geoid/accepted" : "geoid/rejected");
}

inline void magnetic_use(const MagneticModel& m, Env& e) {
  Outs o;
  static const double pts[][4] = {{2027.5, 10, 20, 1000}, {2025, 90, 0, 0}, {2040, -90, 180, -5000}, {1990, 0, -179.9, 6e5}, {2030, 45.5, 270, 1e7}};
  for (auto& p : pts) {
    gcall(e, "MagneticModel::operator()", o, [&] { m(p[0], p[1], p[2], p[3], o.r[0], o.r[1], o.r[2]); });
    gcall(e, "MagneticModel::operator()(rates)", o, [&] { m(p[0], p[1], p[2], p[3], o.r[0], o.r[1], o.r[2], o.r[3], o.r[4], o.r[5]); });
    gcall(e, "MagneticModel::FieldGeocentric", o, [&] { m.FieldGeocentric(p[0], 6.4e6 * std::cos(p[1]), 1e5 + p[3], 6.4e6 * std::sin(p[1]), o.r[0], o.r[1], o.r[2], o.r[3], o.r[4], o.r[5]); });
    guard(e, "MagneticModel::Circle", [&] { MagneticCircle c = m.Circle(p[0], p[1], p[3]);
      double a, b, cc, da, db, dc; c(p[2], a, b, cc); c(p[2] + 33, a, b, cc, da, db, dc);
      c.FieldGeocentric(p[2], a, b, cc, da, db, dc); });
  }
  guard(e, "MagneticModel::inspectors", [&] {
    volatile double s = m.MinHeight() + m.MaxHeight() + m.MinTime() + m.MaxTime() + m.EquatorialRadius() + m.Flattening() + m.Degree() + m.Order(); (void)s;
    volatile size_t l = m.Description().size() + m.DateTime().size() + m.MagneticFile().size() + m.MagneticModelName().size() + m.MagneticModelDirectory().size(); (void)l; });
}
inline void t_magnetic(const uint8_t* d, size_t n, Env& e) {
  unsigned char sel; std::string meta, cof; unpack_pair(d, n, sel, meta, cof);
  if (!write_file(e.dir + "/m.wmm", meta) || !write_file(e.dir + "/m.wmm.cof", cof)) { e.event("harness/write-failed"); return; }
  int Nmax = int(sel & 7) - 1, Mmax = int((sel >> 3) & 7) - 1;
  bool any = false;
  guard(e, "MagneticModel::MagneticModel", [&] { MagneticModel m("m", e.dir, Geocentric::WGS84(), Nmax, Mmax); any = true; magnetic_use(m, e); });
  if (sel & 0x40)
    guard(e, "MagneticModel::MagneticModel", [&] { MagneticModel m("m", e.dir, Geocentric(6.4e6, -0.01), -1, -1); any = true; magnetic_use(m, e); });
  e.event(any ? "magnetic/accepted" : "magnetic/rejected");
}

inline void gravity_use(const GravityModel& g, Env& e) {
  Outs o;
  static const double pts[][3] = {{10, 20, 1000}, {90, 0, 0}, {-90, 180, -5000}, {0, -179.9, 6e5}, {45.5, 270, 1e7}};
  for (auto& p : pts) {
    double X = 6.4e6 * std::cos(p[0]), Y = 1e5 + p[2], Z = 6.4e6 * std::sin(p[0]);
    gcall(e, "GravityModel::Gravity", o, [&] { o.r[3] = g.Gravity(p[0], p[1], p[2], o.r[0], o.r[1], o.r[2]); });
    gcall(e, "GravityModel::Disturbance", o, [&] { o.r[3] = g.Disturbance(p[0], p[1], p[2], o.r[0], o.r[1], o.r[2]); });
    gcall(e, "GravityModel::GeoidHeight", o, [&] { o.r[0] = g.GeoidHeight(p[0], p[1]); });
    gcall(e, "GravityModel::SphericalAnomaly", o, [&] { g.SphericalAnomaly(p[0], p[1], p[2], o.r[0], o.r[1], o.r[2]); });
    gcall(e, "GravityModel::W", o, [&] { o.r[3] = g.W(X, Y, Z, o.r[0], o.r[1], o.r[2]); });
    gcall(e, "GravityModel::V", o, [&] { o.r[3] = g.V(X, Y, Z, o.r[0], o.r[1], o.r[2]); });
    gcall(e, "GravityModel::T", o, [&] { o.r[3] = g.T(X, Y, Z, o.r[0], o.r[1], o.r[2]); o.r[4] = g.T(X, Y, Z); });
    gcall(e, "GravityModel::U", o, [&] { o.r[3] = g.U(X, Y, Z, o.r[0], o.r[1], o.r[2]); });
    gcall(e, "GravityModel::Phi", o, [&] { o.r[3] = g.Phi(X, Y, o.r[0], o.r[1]); });
    guard(e, "GravityModel::Circle", [&] { GravityCircle c = g.Circle(p[0], p[2], GravityModel::ALL);
      double a, b, cc; c.Gravity(p[1], a, b, cc); c.Disturbance(p[1], a, b, cc); (void)c.GeoidHeight(p[1]);
      c.SphericalAnomaly(p[1], a, b, cc); c.W(p[1], a, b, cc); c.V(p[1], a, b, cc); c.T(p[1], a, b, cc); (void)c.T(p[1]); });
  }
  guard(e, "GravityModel::Circle(caps)", [&] { GravityCircle c = g.Circle(33, 100, GravityModel::GEOID_HEIGHT); (void)c.GeoidHeight(7); });
  guard(e, "GravityModel::inspectors", [&] {
    volatile double s = g.EquatorialRadius() + g.MassConstant() + g.ReferenceMassConstant() + g.AngularVelocity() + g.Flattening() + g.Degree() + g.Order(); (void)s;
    volatile size_t l = g.Description().size() + g.DateTime().size() + g.GravityFile().size() + g.GravityModelName().size() + g.GravityModelDirectory().size(); (void)l; });
}
inline void t_gravity(const uint8_t* d, size_t n, Env& e) {
  unsigned char sel; std::string meta, cof; unpack_pair(d, n, sel, meta, cof);
  if (!write_file(e.dir + "/g.egm", meta) || !write_file(e.dir + "/g.egm.cof", cof)) { e.event("harness/write-failed"); return; }
  int Nmax = int(sel & 7) - 1, Mmax = int((sel >> 3) & 7) - 1;
  bool any = false;
  guard(e, "GravityModel::GravityModel", [&] { GravityModel g("g", e.dir, Nmax, Mmax); any = true; gravity_use(g, e); });
  e.event(any ? "gravity/accepted" : "gravity/rejected");
}

// readcoeffs from a stringstream.  d[0] selects truncation and requested (N, M).
inline void t_readcoeffs(const uint8_t* d, size_t n, Env& e) {
  if (n < 1) return;
  unsigned char sel = d[0];
  std::string body((const char*)d + 1, n - 1);
  bool truncate = sel & 1; int Nreq = int((sel >> 1) & 7) - 1, Mreq = int((sel >> 4) & 7) - 1;
  std::istringstream is(body, std::ios::binary);
  int N = Nreq, M = Mreq; std::vector<real> C(3, 7.0), S(2, 9.0);
  int rc = guard(e, "SphericalEngine::coeff::readcoeffs", [&] { SphericalEngine::coeff::readcoeffs(is, N, M, C, S, truncate); });
  if (rc != 0) {
    // the strict reading of "a throwing call leaves its output arguments untouched"
    bool same = N == Nreq && M == Mreq && C.size() == 3 && S.size() == 2 && C[0] == 7.0 && S[0] == 9.0;
    if (!same) e.viol("sentinel:C13/throw-modified-output/SphericalEngine::coeff::readcoeffs", hexs(body));
    e.event("readcoeffs/rejected");
    return;
  }
  e.event("readcoeffs/accepted");
  if (!((N >= M && M >= 0) || (N == -1 && M == -1)) || N >= (1 << 14)) { e.viol("law:C13/readcoeffs/accepted-bad-degree", hexs(body)); return; }
  if ((long long)C.size() != (long long)(M + 1) * (2 * N - M + 2) / 2 ||
      (long long)S.size() != (long long)(M + 1) * (2 * N - M + 2) / 2 - (N + 1))
    { e.viol("law:C13/readcoeffs/vector-size", hexs(body)); return; }
  Outs o;
  guard(e, "SphericalHarmonic(after readcoeffs)", [&] {
    SphericalHarmonic h(C, S, N, N, M, 6.4e6, (sel & 0x80) ? SphericalHarmonic::SCHMIDT : SphericalHarmonic::FULL);
    o.r[0] = h(7e6, 1e5, -3e6); o.r[1] = h(7e6, 1e5, -3e6, o.r[2], o.r[3], o.r[4]);
    CircularEngine c = h.Circle(5e6, 4e6, true); o.r[5] = c(30.0); o.r[6] = c(30.0, o.r[7], o.r[8], o.r[9]); });
}

// ------------------------------------------------------------------ NearestNeighbor
struct NNPt { double x, y; };
struct NNDist {
  mutable uint64_t* calls; uint64_t budget;
  struct Budget {};
  double operator()(const NNPt& a, const NNPt& b) const {
    if (calls && ++*calls > budget) throw Budget();
    return std::hypot(a.x - b.x, a.y - b.y); }
};
typedef NearestNeighbor<double, NNPt, NNDist> NNTree;
inline std::vector<NNPt> nn_points(int n) {
  std::vector<NNPt> p((size_t)n);
  uint64_t s = 12345;
  for (int i = 0; i < n; ++i) { s = s * 6364136223846793005ULL + 1442695040888963407ULL; p[i].x = double((s >> 20) % 2000) / 10;
    s = s * 6364136223846793005ULL + 1442695040888963407ULL; p[i].y = double((s >> 20) % 2000) / 10; }
  return p;
}
inline std::string nn_save(int npts, int bucket, bool bin) {
  std::vector<NNPt> p = nn_points(npts); NNDist dist{nullptr, 0};
  NNTree t(p, dist, bucket); std::ostringstream os(std::ios::binary); t.Save(os, bin); return os.str();
}
inline void nn_load(const uint8_t* d, size_t n, Env& e, bool bin) {
  std::string body((const char*)d, n);
  static const std::vector<NNPt> base = nn_points(9);
  NNDist dist0{nullptr, 0};
  NNTree t(base, dist0, 2);
  std::string before; { std::ostringstream os(std::ios::binary); t.Save(os, true); before = os.str(); }
  std::istringstream is(body, std::ios::binary);
  const char* site = bin ? "NearestNeighbor::Load(bin)" : "NearestNeighbor::Load(text)";
  int rc = guard(e, site, [&] { if (bin) t.Load(is, true); else is >> t; });
  if (rc != 0) {
    std::ostringstream os(std::ios::binary); t.Save(os, true);
    if (os.str() != before) e.viol(std::string("sentinel:C13/throw-modified-object/") + site, hexs(body));   // documented: state unchanged
    e.event("nn/rejected"); return;
  }
  e.event("nn/accepted");
  int np = t.NumPoints();
  if (np < 0) { e.viol(std::string("law:C13/NearestNeighbor::Load/negative-numpoints@") + site, hexs(body)); return; }
  if (np > 20000) { e.event("nn/accepted-too-big-to-search"); return; }
  std::vector<NNPt> pts = nn_points(np);
  uint64_t calls = 0; NNDist dist{&calls, 0};
  static const NNPt qs[] = {{0, 0}, {100, 100}, {37.5, 160.2}, {250, -3}};
  std::vector<int> ind;
  for (int qi = 0; qi < 4; ++qi)
    for (int k = 1; k <= 3; k += 2) {
      calls = 0; dist.budget = 4 * (uint64_t)np + 64;      // a sound tree visits each point at most once
      bool over = false;
      guard(e, "NearestNeighbor::Search(after Load)", [&] {
        try { (void)t.Search(pts, dist, qs[qi], ind, k, qi == 3 ? 50.0 : std::numeric_limits<double>::max(), qi == 2 ? 1.0 : -1.0, (qi & 1) == 0, 0.0); }
        catch (const NNDist::Budget&) { over = true; } });
      if (over) { e.viol("hang:C13/NearestNeighbor::Search-after-Load/distance-evaluations-exceed-4n",
                         hexs(body, 400)); return; }
      for (int v : ind) if (v < 0 || v >= np) { e.viol("law:C13/NearestNeighbor::Search/index-out-of-range", hexs(body)); return; }
    }
  guard(e, "NearestNeighbor::Save(after Load)", [&] { std::ostringstream os; t.Save(os, !bin); os << t; });
  int a, b, c, dd, ee; double m, sd; t.Statistics(a, b, c, dd, ee, m, sd);
}
inline void t_nn_bin(const uint8_t* d, size_t n, Env& e) { nn_load(d, n, e, true); }
inline void t_nn_text(const uint8_t* d, size_t n, Env& e) { nn_load(d, n, e, false); }

// =====================================================================  registry
struct Target { const char* name; void (*fn)(const uint8_t*, size_t, Env&); int max_len; bool is_string; bool is_file; };
inline const std::vector<Target>& targets() {
  static const std::vector<Target> T = {
    {"dms_decode", t_dms_decode, 96, true, false},
    {"dms_latlon", t_dms_latlon, 128, true, false},
    {"geocoords", t_geocoords, 96, true, false},
    {"mgrs_reverse", t_mgrs_reverse, 64, true, false},
    {"utmups_zone", t_utmups_zone, 24, true, false},
    {"geohash", t_geohash, 48, true, false},
    {"gars", t_gars, 32, true, false},
    {"georef", t_georef, 48, true, false},
    {"osgb", t_osgb, 64, true, false},
    {"utility", t_utility, 96, true, false},
    {"fract_int", t_fract_int, 48, true, false},
    {"geoid", t_geoid, 4096, false, true},
    {"magnetic", t_magnetic, 4096, false, true},
    {"gravity", t_gravity, 4096, false, true},
    {"readcoeffs", t_readcoeffs, 2048, false, false},
    {"nn_bin", t_nn_bin, 4096, false, false},
    {"nn_text", t_nn_text, 2048, false, false},
  };
  return T;
}
inline const Target* find_target(const std::string& n) {
  for (auto& t : targets()) if (n == t.name) return &t;
  return nullptr;
}

// seeds (valid inputs) for a target, as fuzz-input byte strings
inline std::vector<std::string> seeds_for(const std::string& t) {
  std::vector<std::string> v;
  auto S = [&](std::initializer_list<const char*> l) { for (auto s : l) v.push_back(s); };
  if (t == "dms_decode") S({"40d26'47\"N", "-73:58:1.5", "1:2:3", "4d5'6.7\"W", "070:00:45", "30.5S", "2.5e1", "nan", "-inf", "45'", "1d2", "1:", "127:54:3.123123E", "+0", "30d60'"});
  else if (t == "dms_latlon") S({"40d26'47\"N\n73d58'W", "33.3\n44.4", "10E\n20N", "-90\n180", "1:2:3\n4:5:6W", "nan\n0", "91\n0"});
  else if (t == "geocoords") S({"38SMB4488", "33.3 44.4", "38n 444500 3684500", "40:26:47N 73:58W", "n 2000000 2000000", "1:2:3 4:5:6", "18TWN0050", "ZAB1234", "38SMB", "33N 44E", "invalid", "0 0", "30.5S 100.25E", "38SMB44148470"});
  else if (t == "mgrs_reverse") S({"38SMB4488", "38SMB", "38S", "ZAB1234", "BAN0000", "18TWN0050", "INVALID", "31NAA0000000000", "60XXM99999999999999999999", "A", "01CDL"});
  else if (t == "utmups_zone") S({"38n", "38north", "s", "south", "60S", "01n", "inv", "invalid", "0n", "61n", "1N"});
  else if (t == "geohash") S({"ezs42", "u4pruydqqvj", "s00000000000000000", "invalid", "9", "zzzzzzzzzzzzzzzzzz", "EZS42"});
  else if (t == "gars") S({"006AG39", "001AA", "720QZ49", "INVALID", "360HN", "006ag3"});
  else if (t == "georef") S({"GJPJ3716", "MKQG1234567890", "AA", "ZMQQ", "INVALID", "GJPJ", "GJ", "gjpj37161627"});
  else if (t == "osgb") S({"TG 51409 13177", "SU387148", "NN166712", "INVALID", "HP", "SV0000000000", "tq 123 456", "SU 38 14"});
  else if (t == "utility") S({"123", "-4.5e3", "1/3", "nan", "-inf", "2012-07-03", "2010", "2016-02", "now", " key = value # c", "on", "false", "+1.#INF", "Name  val ue", "\t x\v", "A0123"});
  else if (t == "fract_int") S({"3/4", "7", "-8/2", "1/1"});
  else if (t == "geoid") { for (int i = 0; i < 4; ++i) v.push_back(geoid_seed(i).bytes); }
  else if (t == "magnetic") { for (int i = 0; i < 3; ++i) { PairSeed p = magnetic_seed(i); v.push_back(pack_pair(0, p.meta.bytes, p.cof.bytes)); v.push_back(pack_pair((unsigned char)(0x40 | (3 + 8 * 3)), p.meta.bytes, p.cof.bytes)); } }
  else if (t == "gravity") { for (int i = 0; i < 3; ++i) { PairSeed p = gravity_seed(i); v.push_back(pack_pair(0, p.meta.bytes, p.cof.bytes)); v.push_back(pack_pair((unsigned char)(3 + 8 * 2), p.meta.bytes, p.cof.bytes)); } }
  else if (t == "readcoeffs") { for (int i = 0; i < 4; ++i) { v.push_back(std::string(1, '\0') + coeff_seed(i).bytes); v.push_back(std::string(1, char(1 | (4 << 1) | (3 << 4))) + coeff_seed(i).bytes); } }
  else if (t == "nn_bin") { v.push_back(nn_save(9, 2, true)); v.push_back(nn_save(40, 4, true)); v.push_back(nn_save(17, 0, true)); v.push_back(nn_save(0, 4, true)); v.push_back(nn_save(30, 10, true)); }
  else if (t == "nn_text") { v.push_back(nn_save(9, 2, false)); v.push_back(nn_save(40, 4, false)); v.push_back(nn_save(17, 0, false)); v.push_back(nn_save(0, 4, false));
    v.push_back("1 53 2 3 2 3\n-1 1 2\n0 0 0 -1 5 7.5 0"); }
  return v;
}

// libFuzzer dictionaries (alphabets and keywords taken from the sources' documentation)
inline std::string dict_for(const std::string& t) {
  std::vector<std::string> w;
  if (t == "dms_decode" || t == "dms_latlon" || t == "geocoords")
    w = {"d", "'", "\\\"", ":", "N", "S", "E", "W", "nan", "inf", "-", "+", ".", "e", "\\xc2\\xb0", "\\xe2\\x80\\xb2", "\\xe2\\x80\\xb3", "''", "\\xb0", "\\xba", "^", "*", "`", "\\xe2\\x88\\x92", " ", "::", "1:2:3:4"};
  if (t == "geocoords") { for (auto s : {"38SMB", "n ", "s ", "38n ", "north", "south", "invalid", ",", "ZAB", "31X"}) w.push_back(s); }
  if (t == "mgrs_reverse") w = {"INV", "INVALID", "38S", "MB", "A", "B", "Y", "Z", "60X", "01C", "99999", "00000", "I", "O", "\\x00"};
  if (t == "utmups_zone") w = {"n", "s", "north", "south", "inv", "invalid", "60", "0", "-", "+", "\\x00"};
  if (t == "geohash") w = {"invalid", "ezs42", "a", "i", "l", "o", "\\x00", "z", "0"};
  if (t == "gars") w = {"INVALID", "001AA", "720QZ", "1", "4", "9", "I", "O", "\\x00"};
  if (t == "georef") w = {"INVALID", "GJPJ", "I", "O", "A", "Z", "M", "Q", "59", "60", "\\x00"};
  if (t == "osgb") w = {"INVALID", "TG", "SV", "HP", "I", " ", "JM", "\\x00"};
  if (t == "utility" || t == "fract_int") w = {"nan", "inf", "1.#INF", "1.#QNAN", "now", "-", "/", "e", "0x", "true", "false", "#", "=", " ", "2147483648", "-2147483648", "/0", "/-1", "999999999", "\\x00"};
  if (t == "geoid") w = {"P5", "# Offset ", "# Scale ", "# Description ", "# DateTime ", "# MaxCubicError ", "65535", "\\x0a", "-1", "2147483647", "1e400", "0 0", "4294967296", "#"};
  if (t == "magnetic") w = {"WMMF-", "NumModels ", "NumConstants ", "Radius ", "Epoch ", "DeltaEpoch ", "MinTime ", "MaxTime ", "MinHeight ", "MaxHeight ", "ID ", "Normalization ", "ByteOrder ", "Type ", "2147483647", "2147483646", "-1", "1e400", "\\xff\\xff\\xff\\xff", "\\xff\\x3f\\x00\\x00", "\\x00\\x40\\x00\\x00", "nan", "inf"};
  if (t == "gravity") w = {"EGMF-", "ModelRadius ", "ModelMass ", "AngularVelocity ", "ReferenceRadius ", "ReferenceMass ", "Flattening ", "DynamicalFormFactor ", "HeightOffset ", "CorrectionMultiplier ", "ID ", "Normalization ", "1/", "-1", "1e400", "nan", "inf", "\\xff\\xff\\xff\\xff", "\\xff\\x3f\\x00\\x00", "\\x00\\x40\\x00\\x00"};
  if (t == "readcoeffs") w = {"\\xff\\xff\\xff\\xff", "\\xff\\x3f\\x00\\x00", "\\x00\\x40\\x00\\x00", "\\xff\\xff\\xff\\x7f", "\\x00\\x00\\x00\\x80", "\\x79\\x6d\\x61\\x6d"};
  if (t == "nn_bin") w = {"NearestNeighbor_", "\\xff\\xff\\xff\\xff", "\\xff\\xff\\xff\\x7f", "\\x35\\x00\\x00\\x00", "\\x01\\x00\\x00\\x00", "\\x00\\x00\\x00\\x00\\x00\\x00\\xf8\\x7f", "\\x00\\x00\\x00\\x00\\x00\\x00\\xf0\\x7f"};
  if (t == "nn_text") w = {"1 53 ", "-1", " ", "\\x0a", "2147483647", "1e400", "nan", "inf", "0 0 0 -1 ", "-2"};
  std::string o; int k = 0;
  for (auto& s : w) o += "kw" + std::to_string(k++) + "=\"" + s + "\"\n";
  return o;
}

}  // namespace c13
