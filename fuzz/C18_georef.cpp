// libFuzzer target for C18: georef decoder/encoder against the exact reference model
#define C18_SCHEME 2
#include "fuzz/C18_target.inc"
